package main

import (
	"fmt"
	"go/token"
	"go/types"
	"sort"
	"strings"

	"golang.org/x/tools/go/ssa"
)

// C01 R12: memory shared by the whole process that is reachable through a package-level variable of ANY
// package (not only Haqq's, which R4 covers) is not written through an alias.
//
//  (a) shared-number: the receiver of a mutating math/big.Int (or uint256.Int) method never aliases a pointer
//      loaded from a package-level variable (common.Big1, big constants of go-ethereum, Haqq's own *big.Int
//      globals). Aliases are followed through phis, local variables, the z-methods of big.Int (which return
//      their receiver), functions with a body that return one of their parameters, and the tabled foreign
//      functions that do (math.BigMax / math.BigMin return one of their two arguments).
//  (b) shared-prefix: append(G, …) where G is a package-level slice is safe only because len(G) == cap(G)
//      (append must reallocate). The initialiser of every package-level slice that is appended to must make
//      that evident: a composite literal, a conversion of a constant, or make with equal length and capacity.
//      A slice pre-sized with spare capacity makes every append write into the one backing array all
//      goroutines (block execution, concurrent gRPC / JSON-RPC queries) share.

// bigMutators: methods of *big.Int that write their receiver (receiver named z in math/big).
var bigMutators = map[string]bool{
	"Add": true, "Sub": true, "Mul": true, "Quo": true, "Rem": true, "QuoRem": true, "Div": true, "Mod": true, "DivMod": true,
	"Exp": true, "Neg": true, "Abs": true, "Set": true, "SetInt64": true, "SetUint64": true, "SetBit": true, "SetBits": true,
	"SetBytes": true, "SetString": true, "Lsh": true, "Rsh": true, "And": true, "Or": true, "Xor": true, "Not": true, "AndNot": true,
	"Sqrt": true, "GCD": true, "ModInverse": true, "ModSqrt": true, "MulRange": true, "Binomial": true, "Rand": true,
	"UnmarshalJSON": true, "UnmarshalText": true, "GobDecode": true, "Scan": true,
	// uint256.Int
	"AddMod": true, "MulMod": true, "SDiv": true, "SMod": true, "SRsh": true, "Clear": true, "SetOne": true, "SetAllOne": true,
	"SetFromBig": true, "SetBytes32": true, "AddUint64": true, "SubUint64": true, "ExtendSign": true, "Byte": true,
}

// returnsAnArgument: foreign functions (no body loaded in the quick tier) that return one of their pointer arguments.
var returnsAnArgument = map[string]bool{
	"github.com/ethereum/go-ethereum/common/math.BigMax": true,
	"github.com/ethereum/go-ethereum/common/math.BigMin": true,
}

func isBigNumberPtr(t types.Type) bool {
	p, ok := t.Underlying().(*types.Pointer)
	if !ok {
		return false
	}
	n, pk := namedName(p.Elem()), namedPkgPath(p.Elem())
	return n == "Int" && (pk == "math/big" || strings.HasSuffix(pk, "holiman/uint256")) || (pk == "math/big" && (n == "Float" || n == "Rat"))
}

// sharedAliases: package-level variables whose pointee v may be.
func sharedAliases(v ssa.Value, depth int, seen map[ssa.Value]bool, out map[*ssa.Global]bool) {
	if v == nil || depth > 8 || seen[v] {
		return
	}
	seen[v] = true
	switch x := v.(type) {
	case *ssa.UnOp:
		if x.Op != token.MUL {
			return
		}
		switch a := x.X.(type) {
		case *ssa.Global:
			out[a] = true
		case *ssa.Alloc:
			for _, w := range allocWriters(a) {
				sharedAliases(w, depth+1, seen, out)
			}
		case *ssa.FieldAddr, *ssa.IndexAddr:
			if g, ok := addrRoot(a).(*ssa.Global); ok {
				out[g] = true
			}
		}
	case *ssa.Phi:
		for _, e := range x.Edges {
			sharedAliases(e, depth+1, seen, out)
		}
	case *ssa.ChangeType:
		sharedAliases(x.X, depth+1, seen, out)
	case *ssa.MakeInterface:
		sharedAliases(x.X, depth+1, seen, out)
	case *ssa.TypeAssert:
		sharedAliases(x.X, depth+1, seen, out)
	case *ssa.Call:
		callee := x.Call.StaticCallee()
		if callee == nil {
			return
		}
		args := x.Call.Args
		if callee.Signature.Recv() != nil && len(args) > 0 && isBigNumberPtr(args[0].Type()) && bigMutators[callee.Name()] {
			sharedAliases(args[0], depth+1, seen, out) // z-methods return z
			return
		}
		full := ""
		if callee.Pkg != nil {
			full = callee.Pkg.Pkg.Path() + "." + callee.Name()
		}
		if returnsAnArgument[full] {
			for _, a := range args {
				if isBigNumberPtr(a.Type()) {
					sharedAliases(a, depth+1, seen, out)
				}
			}
			return
		}
		if callee.Blocks != nil {
			for _, b := range callee.Blocks {
				for _, in := range b.Instrs {
					ret, ok := in.(*ssa.Return)
					if !ok {
						continue
					}
					for _, rv := range ret.Results {
						if !isBigNumberPtr(rv.Type()) {
							continue
						}
						// what the callee returns: a parameter → the matching argument; otherwise follow inside the callee
						retSeen := map[ssa.Value]bool{}
						var follow func(v ssa.Value, d int)
						follow = func(v ssa.Value, d int) {
							if d > 6 || retSeen[v] {
								return
							}
							retSeen[v] = true
							switch y := v.(type) {
							case *ssa.Parameter:
								for i, p := range callee.Params {
									if p == y && i < len(args) {
										sharedAliases(args[i], depth+1, seen, out)
									}
								}
							case *ssa.Phi:
								for _, e := range y.Edges {
									follow(e, d+1)
								}
							default:
								sharedAliases(v, depth+1, seen, out)
							}
						}
						follow(rv, 0)
					}
				}
			}
		}
	}
}

func globalName(g *ssa.Global) string {
	if g.Pkg == nil {
		return g.Name()
	}
	return strings.TrimPrefix(g.Pkg.Pkg.Path(), haqqMod+"/") + "." + g.Name()
}

func detSharedAliasWrites(r *Run, sc *Scopes, S []*ssa.Function, rule string) {
	P := r.P
	// ---- (a) shared numbers ----
	nMut := 0
	for _, fn := range S {
		if isGeneratedFile(P.FileOf(fnPos(fn))) || fn.Name() == "init" || strings.HasPrefix(fn.Name(), "init#") {
			continue
		}
		eachInstr(fn, func(in ssa.Instruction) {
			c, ok := in.(ssa.CallInstruction)
			if !ok {
				return
			}
			callee := c.Common().StaticCallee()
			if callee == nil || callee.Signature.Recv() == nil || !bigMutators[callee.Name()] {
				return
			}
			args := c.Common().Args
			if len(args) == 0 || !isBigNumberPtr(args[0].Type()) {
				return
			}
			nMut++
			gs := map[*ssa.Global]bool{}
			sharedAliases(args[0], 0, map[ssa.Value]bool{}, gs)
			if len(gs) == 0 {
				return
			}
			var names []string
			for g := range gs {
				names = append(names, globalName(g))
			}
			sort.Strings(names)
			r.Bad(rule, fmt.Sprintf("%s#mutates-shared-number/%s", fnID(fn), strings.Join(names, ",")), P.Pos(instrPos(in)),
				fmt.Sprintf("the receiver of (*%s).%s may be the number the package-level variable %s points to: the call overwrites a constant every user in the process shares (ABI encoding of true, fee steps, …) — from then on the replica computes with a different constant than its peers until it restarts", namedName(deref(args[0].Type())), callee.Name(), strings.Join(names, ", ")), sc.S.Chain(fn)...)
		})
	}
	r.Count("big-number mutator calls checked for shared receivers", nMut)
	if sc != nil && len(S) > 100 {
		r.Floor(rule, "big-number mutator calls in consensus scope", nMut, 50)
	}

	// ---- (b) shared prefixes ----
	// appended-to package-level slices
	type site struct {
		fn *ssa.Function
		in ssa.Instruction
	}
	appended := map[*ssa.Global][]site{}
	for _, fn := range P.Funcs {
		if isTestSupport(P, fn) || isGeneratedFile(P.FileOf(fnPos(outermost(fn)))) || !isHaqqPath(fnPkgPath(fn)) {
			continue
		}
		eachInstr(fn, func(in ssa.Instruction) {
			c, ok := in.(*ssa.Call)
			if !ok {
				return
			}
			b, ok := c.Call.Value.(*ssa.Builtin)
			if !ok || b.Name() != "append" || len(c.Call.Args) == 0 {
				return
			}
			base := c.Call.Args[0]
			for {
				if ct, ok := base.(*ssa.ChangeType); ok {
					base = ct.X
					continue
				}
				break
			}
			u, ok := base.(*ssa.UnOp)
			if !ok || u.Op != token.MUL {
				return
			}
			g, ok := u.X.(*ssa.Global)
			if !ok || g.Pkg == nil || !isHaqqPath(g.Pkg.Pkg.Path()) {
				return
			}
			// result stored back into the same variable: the variable is being built, not shared as a prefix
			if refs := c.Referrers(); refs != nil {
				for _, rf := range *refs {
					if st, ok := rf.(*ssa.Store); ok && st.Addr == ssa.Value(g) {
						return
					}
				}
			}
			appended[g] = append(appended[g], site{fn, in})
		})
	}
	var gl []*ssa.Global
	for g := range appended {
		gl = append(gl, g)
	}
	sort.Slice(gl, func(i, j int) bool { return globalName(gl[i]) < globalName(gl[j]) })
	for _, g := range gl {
		how, ok := sliceInitTight(g)
		s0 := appended[g][0]
		r.Check(ok, rule, "var:"+globalName(g)+"#appended-prefix-has-no-spare-capacity", P.Pos(g.Pos()),
			fmt.Sprintf("len == cap (%s); appended to at %d site(s)", how, len(appended[g])),
			fmt.Sprintf("the package-level slice is appended to (first at %s in %s) but its initialiser does not make len == cap evident (%s): with spare capacity every append writes into the one backing array shared by block execution and concurrent queries, so a key built for one account can be overwritten by a query for another before it is used", P.Pos(instrPos(s0.in)), fnID(s0.fn), how))
	}
	if sc != nil && len(S) > 100 {
		r.Floor(rule, "package-level slices used as an append prefix", len(gl), 2)
	}
}

// sliceInitTight: the initialiser of package-level slice g leaves no spare capacity.
func sliceInitTight(g *ssa.Global) (string, bool) {
	if g.Pkg == nil {
		return "no package", false
	}
	var vals []ssa.Value
	for _, m := range g.Pkg.Members {
		fn, ok := m.(*ssa.Function)
		if !ok || !(fn.Name() == "init" || strings.HasPrefix(fn.Name(), "init#")) {
			continue
		}
		eachInstr(fn, func(in ssa.Instruction) {
			if st, ok := in.(*ssa.Store); ok && st.Addr == ssa.Value(g) {
				vals = append(vals, st.Val)
			}
		})
	}
	if len(vals) == 0 {
		return "no initialiser: nil slice", true
	}
	how := ""
	for _, v := range vals {
		h, ok := tightSliceValue(v, 0)
		if !ok {
			return h, false
		}
		how = h
	}
	return how, true
}

func tightSliceValue(v ssa.Value, depth int) (string, bool) {
	if depth > 4 {
		return "initialiser too deep to follow", false
	}
	switch x := v.(type) {
	case *ssa.Const:
		return "nil", true
	case *ssa.ChangeType:
		return tightSliceValue(x.X, depth+1)
	case *ssa.Convert:
		if _, ok := x.X.(*ssa.Const); ok {
			return "conversion of a constant", true
		}
		return "conversion of a computed string", false
	case *ssa.Slice:
		if x.Low == nil && x.High == nil && x.Max == nil {
			if al, ok := x.X.(*ssa.Alloc); ok {
				if _, isArr := deref(al.Type()).Underlying().(*types.Array); isArr {
					return "composite literal", true
				}
			}
		}
		if x.Max != nil && x.High != nil && x.Max == x.High {
			return "full slice expression", true
		}
		return "a slice expression that may leave capacity", false
	case *ssa.MakeSlice:
		if x.Len == x.Cap {
			return "make with len == cap", true
		}
		lc, ok1 := x.Len.(*ssa.Const)
		cc, ok2 := x.Cap.(*ssa.Const)
		if ok1 && ok2 && lc.Value != nil && cc.Value != nil && lc.Value.ExactString() == cc.Value.ExactString() {
			return "make with len == cap", true
		}
		return "make with capacity beyond length", false
	case *ssa.Call:
		callee := x.Call.StaticCallee()
		if b, ok := x.Call.Value.(*ssa.Builtin); ok && b.Name() == "append" {
			return "built with append (capacity is whatever the runtime rounded up to)", false
		}
		if callee == nil || callee.Blocks == nil {
			name := "a dynamic call"
			if callee != nil {
				name = callee.String()
			}
			// foreign constructors of exact-size byte strings
			switch name {
			case "github.com/cosmos/cosmos-sdk/types/address.Module", "github.com/cosmos/cosmos-sdk/x/auth/types.NewModuleAddress",
				"github.com/cosmos/cosmos-sdk/types.AccAddress", "github.com/ethereum/go-ethereum/common.Hex2Bytes", "github.com/ethereum/go-ethereum/common.FromHex":
				return "exact-size result of " + name, true
			}
			return "result of " + name + " (capacity not evident)", false
		}
		how := ""
		for _, b := range callee.Blocks {
			for _, in := range b.Instrs {
				ret, ok := in.(*ssa.Return)
				if !ok || len(ret.Results) == 0 {
					continue
				}
				h, ok := tightSliceValue(ret.Results[0], depth+1)
				if !ok {
					return callee.Name() + " returns " + h, false
				}
				how = callee.Name() + " returns " + h
			}
		}
		return how, how != ""
	}
	return fmt.Sprintf("initialiser of kind %T", v), false
}
