package main

import (
	"fmt"
	"go/token"
	"go/types"
	"strings"

	"golang.org/x/tools/go/ssa"
)

// ---------- exits ----------

type ExitKind int

const (
	ExitSuccess ExitKind = iota // error operand is constant nil
	ExitFailure                 // error operand proven non-nil
	ExitMaybe                   // pass-through: treated as success by the rules
	ExitNoErr                   // function has no error result
)

// retOperands resolves the operands of a Return, looking through the
// defer-spill pattern (named results stored then re-loaded after rundefers).
func retOperands(ret *ssa.Return) []ssa.Value {
	out := make([]ssa.Value, len(ret.Results))
	for i, r := range ret.Results {
		out[i] = r
		if u, ok := r.(*ssa.UnOp); ok && u.Op == token.MUL {
			if al, ok := u.X.(*ssa.Alloc); ok {
				// last store into al that precedes the return in the same block
				var last ssa.Value
				for _, in := range ret.Block().Instrs {
					if in == ssa.Instruction(u) {
						break
					}
					if st, ok := in.(*ssa.Store); ok && st.Addr == al {
						last = st.Val
					}
				}
				if last != nil {
					out[i] = last
				}
			}
		}
	}
	return out
}

func errResultIndex(fn *ssa.Function) int {
	res := fn.Signature.Results()
	for i := res.Len() - 1; i >= 0; i-- {
		if isErrorType(res.At(i).Type()) {
			return i
		}
	}
	return -1
}

func classifyExit(ret *ssa.Return) ExitKind {
	fn := ret.Parent()
	if fn.Recover != nil && ret.Block() == fn.Recover {
		// only reached when a deferred call recovered from a panic: not a normal completion
		return ExitFailure
	}
	ei := errResultIndex(fn)
	if ei < 0 {
		return ExitNoErr
	}
	ops := retOperands(ret)
	if ei >= len(ops) {
		return ExitMaybe
	}
	e := ops[ei]
	if isNilConst(e) {
		return ExitSuccess
	}
	if provenNonNil(e, ret.Block(), 0) {
		return ExitFailure
	}
	return ExitMaybe
}

// provenNonNil: v is non-nil whenever control is in block at.
func provenNonNil(v ssa.Value, at *ssa.BasicBlock, depth int) bool {
	if depth > 6 {
		return false
	}
	switch x := v.(type) {
	case *ssa.MakeInterface:
		// interface holding a concrete value; a nil *T in an interface is still != nil
		return true
	case *ssa.Const:
		return x.Value != nil
	case *ssa.Call:
		ci := callInfo(x)
		// cosmos-sdk types/errors re-exports Wrap/Wrapf as package-level func variables
		if u, ok := x.Call.Value.(*ssa.UnOp); ok && u.Op == token.MUL {
			if g, ok := u.X.(*ssa.Global); ok && (g.Name() == "Wrap" || g.Name() == "Wrapf") && g.Pkg != nil && pathHasSuffix(g.Pkg.Pkg.Path(), "types/errors") && len(x.Call.Args) > 0 {
				return provenNonNil(x.Call.Args[0], at, depth+1)
			}
		}
		switch {
		case ci.Recv == "" && (pathHasSuffix(ci.PkgPath, "cosmossdk.io/errors") || pathHasSuffix(ci.PkgPath, "github.com/pkg/errors") || pathHasSuffix(ci.PkgPath, "cosmos-sdk/types/errors")) &&
			(ci.Name == "Wrap" || ci.Name == "Wrapf" || ci.Name == "WithStack" || ci.Name == "WithMessage" || ci.Name == "WithMessagef"):
			if len(x.Call.Args) > 0 {
				return provenNonNil(x.Call.Args[0], at, depth+1)
			}
		case ci.Recv == "" && ci.PkgPath == "fmt" && ci.Name == "Errorf",
			ci.Recv == "" && ci.PkgPath == "errors" && ci.Name == "New",
			ci.Recv == "" && (pathHasSuffix(ci.PkgPath, "cosmossdk.io/errors") || pathHasSuffix(ci.PkgPath, "github.com/pkg/errors")) && (ci.Name == "New" || ci.Name == "Errorf" || ci.Name == "Register"),
			ci.Recv == "" && pathHasSuffix(ci.PkgPath, "google.golang.org/grpc/status") && (ci.Name == "Error" || ci.Name == "Errorf"):
			return true
		case ci.Recv == "Error" && (ci.Name == "Wrap" || ci.Name == "Wrapf"):
			// (*errorsmod.Error).Wrap on a registered sentinel
			return true
		}
	case *ssa.UnOp:
		if x.Op == token.MUL {
			if g, ok := x.X.(*ssa.Global); ok {
				// package-level sentinel error variables (ErrXxx = errorsmod.Register(...))
				if isErrorType(g.Type().(*types.Pointer).Elem()) || namedName(g.Type().(*types.Pointer).Elem()) == "Error" {
					return true
				}
			}
		}
	case *ssa.Phi:
		for i, e := range x.Edges {
			if isNilConst(e) {
				return false
			}
			if !provenNonNil(e, x.Block().Preds[i], depth+1) {
				return false
			}
		}
		return len(x.Edges) > 0
	}
	if at == nil {
		return false
	}
	// dominated by an edge on which v != nil holds
	for b := at; b != nil; b = b.Idom() {
		d := b.Idom()
		if d == nil {
			break
		}
		ifi, ok := lastIf(d)
		if !ok {
			continue
		}
		bin, ok := ifi.Cond.(*ssa.BinOp)
		if !ok {
			continue
		}
		var other ssa.Value
		if bin.X == v {
			other = bin.Y
		} else if bin.Y == v {
			other = bin.X
		} else {
			continue
		}
		if !isNilConst(other) {
			continue
		}
		// which successor of d dominates `at` exclusively?
		tr, fl := d.Succs[0], d.Succs[1]
		if bin.Op == token.NEQ && tr != fl && len(tr.Preds) == 1 && dominates(tr, at) {
			return true
		}
		if bin.Op == token.EQL && tr != fl && len(fl.Preds) == 1 && dominates(fl, at) {
			return true
		}
	}
	return false
}

func lastIf(b *ssa.BasicBlock) (*ssa.If, bool) {
	if len(b.Instrs) == 0 {
		return nil, false
	}
	i, ok := b.Instrs[len(b.Instrs)-1].(*ssa.If)
	return i, ok
}

func dominates(a, b *ssa.BasicBlock) bool {
	for x := b; x != nil; x = x.Idom() {
		if x == a {
			return true
		}
	}
	return false
}

// ---------- path search ----------

type Edge struct {
	From *ssa.BasicBlock
	Succ int
}

type PathQuery struct {
	Fn *ssa.Function
	// Start: nil = function entry; otherwise search starts right after this instruction.
	Start ssa.Instruction
	// StartBlock: search starts at the first instruction of this block (overrides Start).
	StartBlock *ssa.BasicBlock
	// Block: passing an instruction for which Block returns true ends that path (the event "happened").
	Block func(ssa.Instruction) bool
	// Target: reaching such an instruction (without having been blocked) is a witness.
	Target func(ssa.Instruction) bool
	// DelEdge: edges removed from the CFG (bypass edges / edges on which a guard holds).
	DelEdge func(e Edge) bool
}

// Search returns a witness path (list of instructions of interest: block entries) if Target is
// reachable from Start without passing a Block instruction, else nil.
func (q PathQuery) Search() []ssa.Instruction {
	fn := q.Fn
	if len(fn.Blocks) == 0 {
		return nil
	}
	type item struct {
		b    *ssa.BasicBlock
		from int
		prev *pnode
	}
	startB, startI := fn.Blocks[0], 0
	if q.Start != nil {
		startB = q.Start.Block()
		for i, in := range startB.Instrs {
			if in == q.Start {
				startI = i + 1
			}
		}
	}
	if q.StartBlock != nil {
		startB, startI = q.StartBlock, 0
	}
	visited := map[*ssa.BasicBlock]bool{}
	work := []item{{startB, startI, nil}}
	for len(work) > 0 {
		it := work[0]
		work = work[1:]
		blocked := false
		node := &pnode{b: it.b, prev: it.prev}
		for i := it.from; i < len(it.b.Instrs); i++ {
			in := it.b.Instrs[i]
			if q.Target != nil && q.Target(in) {
				return node.trace(in)
			}
			if q.Block != nil && q.Block(in) {
				blocked = true
				break
			}
		}
		if blocked {
			continue
		}
		for si, s := range it.b.Succs {
			if q.DelEdge != nil && q.DelEdge(Edge{it.b, si}) {
				continue
			}
			if visited[s] {
				continue
			}
			visited[s] = true
			work = append(work, item{s, 0, node})
		}
	}
	return nil
}

type pnode struct {
	b    *ssa.BasicBlock
	prev *pnode
}

func (n *pnode) trace(last ssa.Instruction) []ssa.Instruction {
	var rev []ssa.Instruction
	rev = append(rev, last)
	for x := n; x != nil; x = x.prev {
		if len(x.b.Instrs) > 0 {
			rev = append(rev, x.b.Instrs[0])
		}
	}
	for i, j := 0, len(rev)-1; i < j; i, j = i+1, j-1 {
		rev[i], rev[j] = rev[j], rev[i]
	}
	return rev
}

func (P *Prog) witness(path []ssa.Instruction) []string {
	var out []string
	lastLine := ""
	for _, in := range path {
		p := P.Pos(instrPos(in))
		s := fmt.Sprintf("block %d (%s) @ %s", in.Block().Index, in.Block().Comment, p)
		if s != lastLine {
			out = append(out, s)
		}
		lastLine = s
	}
	if len(out) > 14 {
		out = append(out[:6], append([]string{"..."}, out[len(out)-7:]...)...)
	}
	return out
}

// isSuccessExit: Return classified success or maybe.
func isSuccessExit(in ssa.Instruction) bool {
	r, ok := in.(*ssa.Return)
	if !ok {
		return false
	}
	k := classifyExit(r)
	return k == ExitSuccess || k == ExitMaybe || k == ExitNoErr
}

func isCallMatching(pred CallPred) func(ssa.Instruction) bool {
	return func(in ssa.Instruction) bool {
		c, ok := in.(ssa.CallInstruction)
		if !ok {
			return false
		}
		if _, isDefer := in.(*ssa.Defer); isDefer {
			return false
		}
		if _, isGo := in.(*ssa.Go); isGo {
			return false
		}
		return pred(callInfo(c))
	}
}

// findCalls lists call sites in fn (not nested closures) matching pred.
func findCalls(fn *ssa.Function, pred CallPred) []ssa.CallInstruction {
	var out []ssa.CallInstruction
	eachInstr(fn, func(in ssa.Instruction) {
		if c, ok := in.(ssa.CallInstruction); ok && pred(callInfo(c)) {
			out = append(out, c)
		}
	})
	return out
}

// Precedes: every path from entry to any B passes an A (optionally with edges deleted).
// Returns a witness path to B avoiding A if violated.
func Precedes(fn *ssa.Function, A, B func(ssa.Instruction) bool, del func(Edge) bool) []ssa.Instruction {
	return PathQuery{Fn: fn, Block: A, Target: B, DelEdge: del}.Search()
}

// Follows: from `after`, no success exit is reachable without passing S.
func Follows(fn *ssa.Function, after ssa.Instruction, S func(ssa.Instruction) bool, del func(Edge) bool) []ssa.Instruction {
	return PathQuery{Fn: fn, Start: after, Block: S, Target: isSuccessExit, DelEdge: del}.Search()
}

// ---------- error-checked calls ----------

// errResultOf returns the SSA value holding the error result of call c (the call itself when it
// returns only an error; the Extract otherwise). nil if the callee returns no error or the result is dropped.
func errResultOf(c ssa.CallInstruction) ssa.Value {
	v := c.Value()
	if v == nil {
		return nil
	}
	sig := c.Common().Signature()
	res := sig.Results()
	if res.Len() == 0 {
		return nil
	}
	idx := -1
	for i := res.Len() - 1; i >= 0; i-- {
		if isErrorType(res.At(i).Type()) {
			idx = i
			break
		}
	}
	if idx < 0 {
		return nil
	}
	if res.Len() == 1 {
		return v
	}
	if v.Referrers() == nil {
		return nil
	}
	for _, r := range *v.Referrers() {
		if e, ok := r.(*ssa.Extract); ok && e.Index == idx {
			return e
		}
	}
	return nil
}

// errHandled: the error result of c is compared with nil in a branch, or returned.
// A dropped/blank error is reported false.
func errHandled(c ssa.CallInstruction) bool {
	e := errResultOf(c)
	if e == nil {
		return false
	}
	if e.Referrers() == nil {
		return false
	}
	seen := map[ssa.Value]bool{}
	var used func(v ssa.Value) bool
	used = func(v ssa.Value) bool {
		if seen[v] {
			return false
		}
		seen[v] = true
		for _, r := range *v.Referrers() {
			switch x := r.(type) {
			case *ssa.BinOp:
				if (x.Op == token.NEQ || x.Op == token.EQL) && (isNilConst(x.X) || isNilConst(x.Y)) {
					if condUsed(x) {
						return true
					}
				}
			case *ssa.Return:
				return true
			case *ssa.Phi:
				if used(x) {
					return true
				}
			case *ssa.Store:
				// stored into a named result / local that is later returned
				if al, ok := x.Addr.(*ssa.Alloc); ok {
					for _, rr := range *al.Referrers() {
						if u, ok := rr.(*ssa.UnOp); ok && u.Referrers() != nil {
							if used(u) {
								return true
							}
						}
					}
				}
			case *ssa.Call:
				// passed on (e.g. errorsmod.Wrap(err, ..)) — result must itself be used
				if x.Referrers() != nil && used(x) {
					return true
				}
			case *ssa.MakeInterface:
				if used(x) {
					return true
				}
			}
		}
		return false
	}
	return used(e)
}

func condUsed(b *ssa.BinOp) bool {
	if b.Referrers() == nil {
		return false
	}
	for _, r := range *b.Referrers() {
		switch r.(type) {
		case *ssa.If:
			return true
		case *ssa.Phi, *ssa.BinOp, *ssa.UnOp:
			return true
		}
	}
	return false
}

// failEdgeOf: for a call whose error is tested by `if err != nil`, the edge on which err != nil.
// Used to treat "call succeeded" as passing the false edge.
func errEdges(c ssa.CallInstruction) (nonNilEdges []Edge) {
	e := errResultOf(c)
	if e == nil || e.Referrers() == nil {
		return nil
	}
	for _, r := range *e.Referrers() {
		b, ok := r.(*ssa.BinOp)
		if !ok || !(isNilConst(b.X) || isNilConst(b.Y)) || b.Referrers() == nil {
			continue
		}
		for _, rr := range *b.Referrers() {
			if ifi, ok := rr.(*ssa.If); ok {
				if b.Op == token.NEQ {
					nonNilEdges = append(nonNilEdges, Edge{ifi.Block(), 0})
				} else if b.Op == token.EQL {
					nonNilEdges = append(nonNilEdges, Edge{ifi.Block(), 1})
				}
			}
		}
	}
	return
}

// ---------- condition edges ----------

// condEdges finds every If in fn whose condition (looking through negation) is a comparison
// x == y / x != y accepted by match(x,y); returns the edges on which x == y holds ("equal edges")
// and those on which x != y holds.
func condEdges(fn *ssa.Function, match func(x, y ssa.Value) bool) (eq, ne []Edge) {
	for _, b := range fn.Blocks {
		ifi, ok := lastIf(b)
		if !ok {
			continue
		}
		cond := ifi.Cond
		neg := false
		for {
			if u, ok := cond.(*ssa.UnOp); ok && u.Op == token.NOT {
				neg = !neg
				cond = u.X
				continue
			}
			break
		}
		isEq, x, y, ok := asEquality(cond)
		if !ok || !(match(x, y) || match(y, x)) {
			continue
		}
		if neg {
			isEq = !isEq
		}
		if isEq {
			eq = append(eq, Edge{b, 0})
			ne = append(ne, Edge{b, 1})
		} else {
			eq = append(eq, Edge{b, 1})
			ne = append(ne, Edge{b, 0})
		}
	}
	return
}

// asEquality recognises `x == y`, `x != y`, bytes.Equal(x,y), x.Equals(y), x.Equal(y).
func asEquality(cond ssa.Value) (isEq bool, x, y ssa.Value, ok bool) {
	switch c := cond.(type) {
	case *ssa.BinOp:
		if c.Op == token.EQL {
			return true, c.X, c.Y, true
		}
		if c.Op == token.NEQ {
			return false, c.X, c.Y, true
		}
	case *ssa.Call:
		ci := callInfo(c)
		if (ci.Name == "Equal" || ci.Name == "Equals") && len(callArgs(c)) == 2 {
			a := callArgs(c)
			return true, a[0], a[1], true
		}
	}
	return false, nil, nil, false
}

func edgeSet(es []Edge) func(Edge) bool {
	m := map[Edge]bool{}
	for _, e := range es {
		m[e] = true
	}
	return func(e Edge) bool { return m[e] }
}

// errFailsOnly: the error result of call c cannot lead to a success exit of its function: it is returned as is, or
// every edge on which it is non-nil reaches failure exits only. ok=false with a witness otherwise; tested=false when
// the error is neither returned nor tested at all.
func errFailsOnly(P *Prog, fn *ssa.Function, c ssa.CallInstruction) (ok bool, tested bool, wit []string) {
	e := errResultOf(c)
	if e == nil {
		return true, true, nil
	}
	direct := false
	eachInstr(fn, func(in ssa.Instruction) {
		if ret, isR := in.(*ssa.Return); isR {
			for _, op := range retOperands(ret) {
				if op == e {
					direct = true
				}
			}
		}
	})
	edges := errEdges(c)
	if len(edges) == 0 {
		return direct, direct, nil
	}
	for _, ed := range edges {
		if w := (PathQuery{Fn: fn, StartBlock: ed.From.Succs[ed.Succ], Target: isSuccessExit}).Search(); w != nil {
			return false, true, P.witness(w)
		}
	}
	return true, true, nil
}

// checkErrorsFailTheMessage: in each of fns, a non-nil error of a call into Haqq code or into a keeper (static callee in a
// Haqq package, or an interface/keeper method) never leads to a success exit.
func checkErrorsFailTheMessage(r *Run, rule string, fns []*ssa.Function, why string) int {
	P := r.P
	n := 0
	for _, fn := range fns {
		idx := map[string]int{}
		eachCall(fn, func(ci CallInfo) {
			if errResultOf(ci.Instr) == nil {
				return
			}
			stateful := false
			if ci.Static != nil && isHaqqPath(fnPkgPath(ci.Static)) {
				stateful = true
			}
			if strings.HasSuffix(ci.Recv, "Keeper") || strings.HasSuffix(ci.Recv, "keeper") || strings.Contains(ci.PkgPath, "/keeper") {
				stateful = true
			}
			// a step that can change or read chain state takes a Context; predicates and setters of in-memory objects
			// (utils.IsContractAccount, EthAccount.SetCodeHash) do not
			hasCtx := false
			for _, a := range ci.Instr.Common().Args {
				if namedName(a.Type()) == "Context" {
					hasCtx = true
				}
			}
			if !stateful || !hasCtx {
				return
			}
			n++
			idx[ci.Name]++
			ok, tested, wit := errFailsOnly(P, fn, ci.Instr)
			inst := fmt.Sprintf("%s#err-of-%s-%d", fnID(fn), ci.Name, idx[ci.Name])
			bad := "after " + ci.String() + " failed the function can still return success (the error is only logged, matched against a sentinel or ignored): " + why
			if !tested {
				bad = "the error of " + ci.String() + " is neither returned nor tested: " + why
			}
			r.Check(ok, rule, inst, P.Pos(instrPos(ci.Instr)), "a non-nil error reaches only failure exits", bad, wit...)
		})
	}
	return n
}
