package main

import (
	"fmt"
	"go/token"
	"go/types"
	"sort"
	"strings"

	"golang.org/x/tools/go/ssa"
)

// ---------- ante chain model ----------

type anteDecor struct {
	Name   string // type name
	Pkg    string
	Rel    string // pkg-rel/TypeName
	Type   types.Type
	Handle *ssa.Function // AnteHandle body when the decorator is Haqq code
	Ctor   ssa.CallInstruction
	Val    ssa.Value
}

type anteChain struct {
	Ctor   *ssa.Function
	Decors []*anteDecor
	Call   ssa.CallInstruction
}

var anteMemo = map[*Prog]map[string]*anteChain{}

const antePkg = "app/ante"

func anteChains(r *Run) map[string]*anteChain {
	P := r.P
	if m, ok := anteMemo[P]; ok {
		return m
	}
	out := map[string]*anteChain{}
	for _, name := range []string{"newEVMAnteHandler", "newCosmosAnteHandler", "newLegacyCosmosAnteHandlerEip712"} {
		fn, ok := P.FnOK(antePkg + "." + name)
		if !ok {
			r.Bad("MODEL", "anchor/"+antePkg+"."+name, "", "ante chain constructor not found")
			continue
		}
		ch := &anteChain{Ctor: fn}
		eachCall(fn, func(ci CallInfo) {
			if ci.Name != "ChainAnteDecorators" {
				return
			}
			ch.Call = ci.Instr
			args := ci.Instr.Common().Args
			if len(args) != 1 {
				return
			}
			sl, ok := args[0].(*ssa.Slice)
			if !ok {
				return
			}
			al, ok := sl.X.(*ssa.Alloc)
			if !ok {
				return
			}
			elems := map[int64]ssa.Value{}
			for _, ref := range *al.Referrers() {
				ia, ok := ref.(*ssa.IndexAddr)
				if !ok {
					continue
				}
				c, ok := ia.Index.(*ssa.Const)
				if !ok {
					continue
				}
				for _, r2 := range *ia.Referrers() {
					if st, ok := r2.(*ssa.Store); ok {
						elems[c.Int64()] = st.Val
					}
				}
			}
			var idx []int64
			for k := range elems {
				idx = append(idx, k)
			}
			sort.Slice(idx, func(i, j int) bool { return idx[i] < idx[j] })
			for _, k := range idx {
				v := stripValue(elems[k])
				t := v.Type()
				d := &anteDecor{Name: namedName(t), Pkg: namedPkgPath(t), Type: t, Val: v}
				d.Rel = strings.TrimPrefix(d.Pkg, haqqMod+"/") + "." + d.Name
				if c, ok := v.(*ssa.Call); ok {
					d.Ctor = c
					if _, isIface := t.Underlying().(*types.Interface); isIface {
						// constructor returns sdk.AnteDecorator: name the decorator after its constructor
						ci := callInfo(c)
						d.Name = strings.TrimPrefix(ci.Name, "New")
						d.Pkg = ci.PkgPath
					}
				}
				if isHaqqPath(d.Pkg) {
					for _, pre := range []string{"(" + strings.TrimPrefix(d.Pkg, haqqMod+"/") + "." + d.Name + ").AnteHandle", "(*" + strings.TrimPrefix(d.Pkg, haqqMod+"/") + "." + d.Name + ").AnteHandle"} {
						if h, ok := P.FnOK(pre); ok && h.Synthetic == "" {
							d.Handle = h
						}
					}
				}
				ch.Decors = append(ch.Decors, d)
			}
		})
		out[name] = ch
	}
	anteMemo[P] = out
	return out
}

func (c *anteChain) index(name string) int {
	for i, d := range c.Decors {
		if d.Name == name {
			return i
		}
	}
	return -1
}

func (c *anteChain) names() []string {
	var out []string
	for _, d := range c.Decors {
		out = append(out, d.Name)
	}
	return out
}

// requireOrder records one obligation per (chain, a<b) pair.
func requireOrder(r *Run, rule, chainName string, c *anteChain, a, b string) {
	P := r.P
	ia, ib := c.index(a), c.index(b)
	inst := fmt.Sprintf("%s.%s#%s<%s", antePkg, chainName, a, b)
	where := P.Pos(fnPos(c.Ctor))
	switch {
	case ia < 0:
		r.Bad(rule, inst, where, "decorator "+a+" is missing from the chain "+strings.Join(c.names(), " → "))
	case ib < 0:
		r.Bad(rule, inst, where, "decorator "+b+" is missing from the chain "+strings.Join(c.names(), " → "))
	case ia >= ib:
		r.Bad(rule, inst, where, fmt.Sprintf("%s (position %d) must run before %s (position %d)", a, ia, b, ib))
	default:
		r.OK(rule, inst, where, fmt.Sprintf("positions %d < %d", ia, ib))
	}
}

func requirePresent(r *Run, rule, chainName string, c *anteChain, a string) bool {
	ok := c.index(a) >= 0
	r.Check(ok, rule, fmt.Sprintf("%s.%s#has-%s", antePkg, chainName, a), r.P.Pos(fnPos(c.Ctor)), "present", "decorator "+a+" is missing from the chain "+strings.Join(c.names(), " → "))
	return ok
}

// ---------- AnteHandle vocabulary ----------

// nextCall: dynamic call of the function's `next` parameter (the rest of the chain).
func nextCallPred(fn *ssa.Function) func(ssa.Instruction) bool {
	var next *ssa.Parameter
	for _, p := range fn.Params {
		if _, ok := p.Type().Underlying().(*types.Signature); ok && (p.Name() == "next" || namedName(p.Type()) == "AnteHandler") {
			next = p
		}
	}
	return func(in ssa.Instruction) bool {
		c, ok := in.(ssa.CallInstruction)
		if !ok || next == nil {
			return false
		}
		return c.Common().Value == ssa.Value(next)
	}
}

// condMatch describes an If condition; passOnTrue tells on which edge the check is satisfied.
type condMatch func(cond ssa.Value) (passOnTrue bool, ok bool)

// guardPassEdges: edges on which a guard matching m passes.
func guardPassEdges(fn *ssa.Function, m condMatch) (pass []Edge, fail []Edge) {
	for _, b := range fn.Blocks {
		ifi, ok := lastIf(b)
		if !ok {
			continue
		}
		cond, neg := ifi.Cond, false
		for {
			if u, ok := cond.(*ssa.UnOp); ok && u.Op == token.NOT {
				neg, cond = !neg, u.X
				continue
			}
			break
		}
		pt, ok := m(cond)
		if !ok {
			continue
		}
		if neg {
			pt = !pt
		}
		if pt {
			pass = append(pass, Edge{b, 0})
			fail = append(fail, Edge{b, 1})
		} else {
			pass = append(pass, Edge{b, 1})
			fail = append(fail, Edge{b, 0})
		}
	}
	return
}

// requireGuard: target is unreachable from entry once the edges on which the guard passes (and the
// listed bypass edges) are deleted; and the guard exists. Reports under rule/inst.
func requireGuard(r *Run, rule, inst string, fn *ssa.Function, m condMatch, bypass []Edge, target func(ssa.Instruction) bool, okMsg, badMsg string) bool {
	P := r.P
	pass, _ := guardPassEdges(fn, m)
	where := P.Pos(fnPos(fn))
	if len(pass) == 0 {
		r.Bad(rule, inst, where, badMsg+" (the check is absent)")
		return false
	}
	del := edgeSet(append(append([]Edge{}, pass...), bypass...))
	w := PathQuery{Fn: fn, Target: target, DelEdge: del}.Search()
	return r.Check(w == nil, rule, inst, where, okMsg, badMsg, P.witness(w)...)
}

// callCond: cond is a call to a method named one of names (e.g. IsReCheckTx); pass on true.
func boolCallEdges(fn *ssa.Function, names ...string) (trueEdges []Edge) {
	t, _ := guardPassEdges(fn, func(cond ssa.Value) (bool, bool) {
		if c, ok := cond.(*ssa.Call); ok {
			n := callInfo(c).Name
			for _, x := range names {
				if n == x {
					return true, true
				}
			}
		}
		return false, false
	})
	return t
}

// paramBoolEdges: edges on which the bool parameter named name is true.
func paramBoolEdges(fn *ssa.Function, name string) []Edge {
	t, _ := guardPassEdges(fn, func(cond ssa.Value) (bool, bool) {
		p, ok := cond.(*ssa.Parameter)
		return true, ok && p.Name() == name
	})
	return t
}

// lenOfField: v == len(<load of field f>)
func isLenOfField(v ssa.Value, field string) bool {
	c, ok := v.(*ssa.Call)
	if !ok {
		return false
	}
	if b, ok := c.Call.Value.(*ssa.Builtin); !ok || b.Name() != "len" {
		return false
	}
	return backSlice(c.Call.Args[0]).HasField("", field)
}

func constInt(v ssa.Value) (int64, bool) {
	c, ok := v.(*ssa.Const)
	if !ok || c.Value == nil {
		return 0, false
	}
	if c.Value.Kind().String() != "Int" {
		return 0, false
	}
	return c.Int64(), true
}

// typeAssertsTo lists comma-ok type assertions to a pointer to the named type.
type assertSite struct {
	TA      *ssa.TypeAssert
	OkEdges []Edge // edges on which ok is true
	NoEdges []Edge
}

func typeAssertsTo(fn *ssa.Function, pkgSuffix, name string) []assertSite {
	var out []assertSite
	eachInstr(fn, func(in ssa.Instruction) {
		ta, ok := in.(*ssa.TypeAssert)
		if !ok || !ta.CommaOk {
			return
		}
		if namedName(ta.AssertedType) != name || !pathHasSuffix(namedPkgPath(ta.AssertedType), pkgSuffix) {
			return
		}
		s := assertSite{TA: ta}
		for _, ref := range *ta.Referrers() {
			e, ok := ref.(*ssa.Extract)
			if !ok || e.Index != 1 {
				continue
			}
			for _, b := range fn.Blocks {
				ifi, ok := lastIf(b)
				if !ok {
					continue
				}
				cond, neg := ifi.Cond, false
				for {
					if u, ok := cond.(*ssa.UnOp); ok && u.Op == token.NOT {
						neg, cond = !neg, u.X
						continue
					}
					break
				}
				if cond != ssa.Value(e) {
					continue
				}
				if neg {
					s.OkEdges = append(s.OkEdges, Edge{b, 1})
					s.NoEdges = append(s.NoEdges, Edge{b, 0})
				} else {
					s.OkEdges = append(s.OkEdges, Edge{b, 0})
					s.NoEdges = append(s.NoEdges, Edge{b, 1})
				}
			}
		}
		out = append(out, s)
	})
	return out
}

// assertedTypes: named types asserted (comma-ok or not) in fn, e.g. the cases of a type switch.
func assertedTypes(fn *ssa.Function) map[string]bool {
	out := map[string]bool{}
	eachInstr(fn, func(in ssa.Instruction) {
		if ta, ok := in.(*ssa.TypeAssert); ok {
			out[namedPkgPath(ta.AssertedType)+"."+namedName(ta.AssertedType)] = true
		}
	})
	return out
}

// checkAuthorityGuards: every method with which a type of the given packages implements a MsgServer interface and
// whose request type has an Authority field reaches a state write (SetParams or any set*/Set* keeper call) only
// over the edge on which the request's Authority equals the keeper's authority. Returns the number of instances.
func checkAuthorityGuards(r *Run, rule string, pkgs ...string) int {
	P := r.P
	n := 0
	for _, fn := range P.Funcs {
		if fn.Synthetic != "" || fn.Parent() != nil || fn.Signature.Recv() == nil || isTestSupport(P, fn) {
			continue
		}
		in := false
		for _, p := range pkgs {
			if fnPkgPath(fn) == haqqMod+"/"+p {
				in = true
			}
		}
		if !in || fn.Signature.Params().Len() != 2 {
			continue
		}
		req := deref(fn.Signature.Params().At(1).Type())
		st, ok := req.Underlying().(*types.Struct)
		if !ok || !strings.HasPrefix(namedName(req), "Msg") {
			continue
		}
		hasAuth := false
		for i := 0; i < st.NumFields(); i++ {
			if st.Field(i).Name() == "Authority" {
				hasAuth = true
			}
		}
		if !hasAuth {
			continue
		}
		n++
		reqName := namedName(req)
		isWrite := isCallMatching(func(ci CallInfo) bool {
			return ci.Recv != "" && (strings.HasPrefix(ci.Name, "Set") || strings.HasPrefix(ci.Name, "set") || strings.HasPrefix(ci.Name, "Delete") || strings.HasPrefix(ci.Name, "Register") || strings.HasPrefix(ci.Name, "Toggle") || strings.HasPrefix(ci.Name, "Update")) && ci.Name != "UpdateParams"
		})
		requireGuard(r, rule, fnID(fn)+"#authority", fn, func(cond ssa.Value) (bool, bool) {
			b, ok := cond.(*ssa.BinOp)
			if !ok || (b.Op != token.NEQ && b.Op != token.EQL) {
				return false, false
			}
			l, rr := backSlice(b.X), backSlice(b.Y)
			isAuth := func(s *Slice) bool {
				return s.HasField("Keeper", "authority") || s.HasField("BaseKeeper", "authority") || s.HasCall(func(g CallInfo) bool { return g.Name == "GetAuthority" })
			}
			isReq := func(s *Slice) bool { return s.HasField(reqName, "Authority") }
			if (isAuth(l) && isReq(rr)) || (isAuth(rr) && isReq(l)) {
				return b.Op == token.EQL, true
			}
			return false, false
		}, nil, isWrite, "state is written only where the request's Authority is the module authority", "the handler of "+reqName+" can write module state for a signer that is not the module authority (governance): anyone could change the module's parameters")
	}
	return n
}
