package main

import (
	"fmt"
	"go/token"
	"go/types"
	"sort"
	"strings"

	"golang.org/x/tools/go/ssa"
)

func init() {
	register(&propDef{
		ID:  "C20",
		Run: runC20,
		Explanation: "Static analysis of process-local state: (R1) memory that outlives a block without being in the database — fields of keepers, app modules, precompiles, decorators and the app object, and the maps/slices/pointers stored in them — is written by consensus-reachable code only at the tabled idempotent site (the EVM chain id re-derived from ctx.ChainID() in BeginBlock); " +
			"(R2) the functions that extend the in-memory precompile registry at run time are unreachable from every consensus root (after a restart the registry is rebuilt from the static list only); (R3) NewHaqq mounts all stores, loads the latest version when asked, and installs the static precompile registry and the ante handler on every path.",
		Assumptions: []string{"CometBFT / IAVL / store packages restore committed state exactly", "state of dependencies' keepers (sdk modules) is database-backed"},
		Declined:    []string{"behaviour of CometBFT/IAVL/stores across a restart"},
	})
}

// process-local struct types: Haqq struct types that hold wiring and live as long as the process
func isProcessLocalType(t types.Type) bool {
	if isProcessLocalRoot(t) {
		return true
	}
	// a Haqq struct type held (directly, or through pointer/map/slice/array) in a field of a process-local type
	// lives as long as the process too (e.g. a cache object a keeper points to)
	n := namedName(t)
	if n == "" || !isHaqqPath(namedPkgPath(t)) {
		return false
	}
	return heldByProcessLocal()[namedPkgPath(t)+"."+n]
}

var heldMemo map[string]bool
var heldRoots []types.Type

// registerProcessLocalRoots is called once per program with every named Haqq type; it computes the closure.
func heldByProcessLocal() map[string]bool {
	if heldMemo != nil {
		return heldMemo
	}
	heldMemo = map[string]bool{}
	var visit func(t types.Type, depth int)
	visit = func(t types.Type, depth int) {
		if depth > 6 {
			return
		}
		switch x := t.(type) {
		case *types.Pointer:
			visit(x.Elem(), depth)
		case *types.Slice:
			visit(x.Elem(), depth)
		case *types.Array:
			visit(x.Elem(), depth)
		case *types.Map:
			visit(x.Elem(), depth)
		case *types.Named:
			st, ok := x.Underlying().(*types.Struct)
			if !ok || x.Obj().Pkg() == nil || !isHaqqPath(x.Obj().Pkg().Path()) {
				return
			}
			key := x.Obj().Pkg().Path() + "." + x.Obj().Name()
			if heldMemo[key] {
				return
			}
			// generated message types are values, not long-lived holders
			if strings.HasSuffix(x.Obj().Pkg().Path(), "/types") && !isProcessLocalRoot(x) {
				return
			}
			heldMemo[key] = true
			for i := 0; i < st.NumFields(); i++ {
				visit(st.Field(i).Type(), depth+1)
			}
		}
	}
	for _, rt := range heldRoots {
		if st, ok := deref(rt).Underlying().(*types.Struct); ok {
			for i := 0; i < st.NumFields(); i++ {
				visit(st.Field(i).Type(), 0)
			}
		}
	}
	return heldMemo
}

func isProcessLocalRoot(t types.Type) bool {
	n := namedName(t)
	if n == "" || !isHaqqPath(namedPkgPath(t)) {
		return false
	}
	if _, ok := deref(t).Underlying().(*types.Struct); !ok {
		return false
	}
	switch {
	case n == "Keeper", n == "BaseKeeper", n == "WrappedBaseKeeper", n == "Precompile", n == "AppModule", n == "Haqq", n == "msgServer", n == "Migrator", n == "Hooks", n == "IBCMiddleware", n == "Module", n == "tpsCounter", n == "HandlerOptions":
		return true
	case strings.HasSuffix(n, "Decorator"), strings.HasSuffix(n, "Keeper"):
		return true
	}
	return false
}

func deref(t types.Type) types.Type {
	if p, ok := t.Underlying().(*types.Pointer); ok {
		return p.Elem()
	}
	if p, ok := t.(*types.Pointer); ok {
		return p.Elem()
	}
	return t
}

// sharedTarget: the memory written through addr outlives the call: it is reached through a pointer
// parameter/receiver/free variable of a process-local type, or through a pointer/map/slice stored in a field of one.
func sharedTarget(addr ssa.Value) (string, bool) {
	for a := addr; a != nil; {
		switch x := a.(type) {
		case *ssa.FieldAddr:
			a = x.X
		case *ssa.IndexAddr:
			a = x.X
		case *ssa.UnOp:
			if x.Op != token.MUL {
				return "", false
			}
			// loaded pointer / slice / map: where was it loaded from?
			if sn, f, ok := fieldOfAddr(x.X); ok {
				if fa := x.X.(*ssa.FieldAddr); isProcessLocalType(fa.X.Type()) {
					return namedPkgPath(fa.X.Type()) + "." + sn + "." + f, true
				}
			}
			a = x.X
		case *ssa.Field:
			if isProcessLocalType(x.X.Type()) {
				sn, f, _ := fieldOfValue(x)
				switch x.Type().Underlying().(type) {
				case *types.Pointer, *types.Map, *types.Slice:
					return namedPkgPath(x.X.Type()) + "." + sn + "." + f, true
				}
			}
			return "", false
		case *ssa.Parameter:
			if _, isPtr := x.Type().Underlying().(*types.Pointer); isPtr && isProcessLocalType(x.Type()) {
				return namedPkgPath(x.Type()) + "." + namedName(x.Type()), true
			}
			return "", false
		case *ssa.FreeVar:
			// captured variable: pointer to a local of the parent; if the local holds a process-local pointer it is shared
			if p, ok := x.Type().(*types.Pointer); ok {
				if _, isPtr := p.Elem().Underlying().(*types.Pointer); isPtr && isProcessLocalType(p.Elem()) {
					return namedPkgPath(p.Elem()) + "." + namedName(p.Elem()), true
				}
			}
			return "", false
		default:
			return "", false
		}
	}
	return "", false
}

var processLocalWriteExceptions = map[string]string{
	"(*x/evm/keeper.Keeper).WithChainID": "re-derives eip155ChainID from ctx.ChainID() in every BeginBlock and panics if it ever differs: idempotent, rebuilt after a restart by the first BeginBlock",
}

func runC20(r *Run) {
	P := r.P
	sc := scopesOf(r)
	r.Rule("R1", "OWN.process-local-state: in consensus scope no Store/MapUpdate targets memory reached through a pointer receiver/parameter of a keeper-like Haqq type or through a pointer/map/slice held in a field of one, except the tabled idempotent chain-id re-derivation")
	r.Rule("R2", "REACH: (*evm Keeper).AddEVMExtensions and (erc20 Keeper).RegisterERC20Extensions are not reachable from any consensus root")
	r.Rule("R3", "PATH/TABLE.constructor: every return of NewHaqq is preceded by MountKVStores/MountTransientStores/MountMemoryStores, WithPrecompiles(AvailablePrecompiles(…)), SetAnteHandler (via setAnteHandler), SetInitChainer/BeginBlocker/EndBlocker; LoadLatestVersion is called on the loadLatest edge; every store key constant used to wire a keeper is created by NewKVStoreKeys/NewTransientStoreKeys/NewMemoryStoreKeys")

	// ---------- R1 ----------
	detProcessLocalWrites(r, sc)
	// package-level variables are process-local memory too (same rule code as C01 R4)
	r.Rule("R1g", "see C01 R4 (imported): no consensus-scope write to a package-level variable of a Haqq package")
	r.Import("R1g/C01.", []string{"R4"}, func(r2 *Run) { detGlobalWrites(r2, sc, sc.S.HaqqFuncs()) })
	runC20Controls(r)

	// ---------- R4 ----------
	r.Rule("R4", "FLOW.queries-before-the-first-block: the process-local fields that the tabled idempotent sites re-derive in BeginBlock (evm Keeper.eip155ChainID via WithChainID) are nil on a node restarted at a block boundary until its first BeginBlock. In the query scope (everything reachable from the methods implementing a QueryServer interface, which such a node answers immediately) the chain id handed to (*Keeper).EVMConfig — the value the CHAINID opcode and the signer see — never derives from such a field or its getter (directly or through same-package helpers); consensus code may use it (BeginBlock has run)")
	checkRederivedFieldReaders(r, sc)
	// R8: what BeginBlock re-derives is also set when the app is constructed
	r.Rule("R8", "REACH.late-bound-fields-are-set-at-construction: a process-local field that a tabled site re-derives in every BeginBlock (the EVM keeper's EIP-155 chain id) is nil on a node that has just started until its first block — and CheckTx, simulations and queries run before that: with a nil chain id go-ethereum's signer works with chain id 0, so a restarted node rejects every correctly signed Ethereum transaction (code 24) and admits transactions signed for chain id 0 until its first block, while a node that kept running does the opposite. Each such field is therefore also stored by a function reachable from NewHaqq (construction scope), from the chain id the node was started with")
	{
		type fld struct{ st, f string }
		fields := map[fld]bool{}
		for id := range processLocalWriteExceptions {
			if fn, ok := P.FnOK(id); ok {
				eachInstr(fn, func(in ssa.Instruction) {
					if st, ok := in.(*ssa.Store); ok {
						if sn, f, ok := fieldOfAddr(st.Addr); ok {
							fields[fld{sn, f}] = true
						}
					}
				})
			}
		}
		var keys []string
		for k := range fields {
			keys = append(keys, k.st+"."+k.f)
		}
		sort.Strings(keys)
		for _, key := range keys {
			parts := strings.SplitN(key, ".", 2)
			writer := ""
			for _, g := range sc.K.HaqqFuncs() {
				eachInstr(g, func(in ssa.Instruction) {
					if st, ok := in.(*ssa.Store); ok && writer == "" {
						if sn, f, ok := fieldOfAddr(st.Addr); ok && sn == parts[0] && f == parts[1] {
							if _, isConst := st.Val.(*ssa.Const); !isConst {
								writer = fnID(g)
							}
						}
					}
				})
			}
			r.Check(writer != "", "R8", key+"#set-at-construction", "", "stored by "+writer+" (reachable from NewHaqq)",
				"the process-local field "+key+" is written only by its BeginBlock re-derivation: between process start and the first block it is nil, and CheckTx / queries that read it behave differently on a restarted node (Ethereum transactions are checked against chain id 0)")
		}
		r.Floor("R8", "late-bound process-local fields", len(keys), 1)
	}

	// R9: memory stores are rebuilt at construction
	r.Rule("R9", "PATH.memory-stores-rebuilt-on-load: the app mounts memory stores (x/capability's forward/reverse indexes of the IBC port and channel capabilities, never written to disk). The only rebuild in the SDK is the module's begin blocker, so on a restarted node every capability lookup fails until its first block — CheckTx of relayer messages (RedundantRelayDecorator executes them), simulations of IBC transfers and the ICS-20 precompile under eth_call answer 'capability not found' where a node that kept running answers normally. NewHaqq therefore calls the capability keeper's InitMemStore after LoadLatestVersion, guarded by nothing but 'there is committed state' (LastBlockHeight) and the load's own error")
	if nh, ok := P.FnOK("app.NewHaqq"); ok {
		var mounts, load, initMem ssa.Instruction
		for _, g := range withAnon(nh) {
			eachCall(g, func(ci CallInfo) {
				switch ci.Name {
				case "MountMemoryStores":
					mounts = ci.Instr
				case "LoadLatestVersion":
					load = ci.Instr
				case "InitMemStore":
					if strings.HasSuffix(ci.PkgPath, "x/capability/keeper") {
						initMem = ci.Instr
					}
				}
			})
		}
		if mounts == nil {
			r.OK("R9", "app.NewHaqq#no-memory-stores", P.Pos(fnPos(nh)), "no memory store is mounted")
		} else if load == nil {
			r.Bad("R9", "anchor/NewHaqq.LoadLatestVersion", P.Pos(fnPos(nh)), "NewHaqq mounts memory stores but the LoadLatestVersion call was not found")
		} else {
			ok := initMem != nil && initMem.Parent() == load.Parent() && dominates(load.Block(), initMem.Block())
			detail := ""
			if ok {
				// every branch between the load and the rebuild asks only whether there is committed state / the load failed
				for _, b := range load.Parent().Blocks {
					ifi, isIf := lastIf(b)
					if !isIf || !dominates(load.Block(), b) || !dominates(b, initMem.Block()) || b == initMem.Block() {
						continue
					}
					sl := backSlice(ifi.Cond)
					fine := sl.Has(load.(ssa.Value)) || sl.HasCall(func(g CallInfo) bool { return g.Name == "LastBlockHeight" })
					if b != load.Block() && !fine {
						ok, detail = false, " (the rebuild is conditional on "+P.Pos(ifi.Pos())+", which asks something other than 'is there committed state')"
					}
				}
			}
			r.Check(ok, "R9", "app.NewHaqq#capabilities-rebuilt-after-load", P.Pos(instrPos(load)), "InitMemStore follows LoadLatestVersion",
				"NewHaqq mounts memory stores but does not rebuild the capability keeper's memory store after LoadLatestVersion"+detail+": on a node restarted at height h every capability lookup answers 'not found' until block h+1 — CheckTx(MsgRecvPacket) returns code 7 and Simulate(MsgTransfer) fails with 'channel capability not found' while the node that never stopped accepts both")
		}
	} else {
		r.Bad("R9", "anchor/app.NewHaqq", "", "not found")
	}

	// R10: the indexer's cursor is rebuilt from what the node still has
	r.Rule("R10", "SHAPE.the-indexer-resumes-inside-the-block-store: the EVM indexer service keeps its position in a local variable that advances over every block, and after a restart re-derives it from the last block that *held an Ethereum transaction*; with block pruning (min-retain-blocks) the blocks after that height may be gone, the fetch fails and the loop retries the same height forever — a restarted node never indexes another transaction and eth_getTransactionByHash answers null where the node that kept running answers. OnStart therefore reads the node's earliest available height (SyncInfo.EarliestBlockHeight) when it picks its start")
	if os, ok := P.FnOK("(*server.EVMIndexerService).OnStart"); ok {
		reads := false
		for _, g := range withAnon(os) {
			eachInstr(g, func(in ssa.Instruction) {
				switch v := in.(type) {
				case *ssa.FieldAddr:
					if _, f, ok := fieldOfAddr(v); ok && f == "EarliestBlockHeight" {
						reads = true
					}
				case *ssa.Field:
					if _, f, ok := fieldOfValue(v); ok && f == "EarliestBlockHeight" {
						reads = true
					}
				}
			})
		}
		r.Check(reads, "R10", fnID(os)+"#start-clamped-to-the-earliest-block", P.Pos(fnPos(os)), "OnStart reads SyncInfo.EarliestBlockHeight",
			"the indexer service picks its start from LastIndexedBlock alone: T1 in block 5, blocks 6–39 without Ethereum transactions and pruned, restart after block 39, T2 in block 40 — the restarted node reports last indexed block 5 with the block store starting at 29, made 2710 failed fetches of height 6 in 3 s and answers nil for T2; the continuous node has both indexed")
	} else {
		r.Bad("R10", "anchor/(*server.EVMIndexerService).OnStart", "", "not found")
	}

	// ---------- R5 ----------
	r.Rule("R5", "TABLE.memory-stores: memory stores are empty after a restart. NewHaqq creates memory store keys only for the tabled dependency module that rebuilds its memory store itself (capability); no Haqq keeper is wired with a memory store key and no Haqq function passes a *MemoryStoreKey to ctx.KVStore — a consensus value parked in a memory store is gone on a restarted node")
	{
		allowedMem := map[string]string{"memory_capability": "capability module (SDK): re-initialises its memory store from the persistent store in BeginBlock/InitMemStore", "mem_capability": "capability module (SDK)", "memory:capability": "capability module (SDK): re-initialises its memory store from the persistent store (InitMemStore) on the first block after a restart"}
		if nh, ok := P.FnOK("app.NewHaqq"); ok {
			n := 0
			eachCall(nh, func(ci CallInfo) {
				if ci.Name != "NewMemoryStoreKeys" {
					return
				}
				for _, a := range ci.Instr.Common().Args {
					backSlice(a).Any(func(v ssa.Value) bool {
						if name, ok := constString(v); ok {
							n++
							_, tabled := allowedMem[name]
							r.Check(tabled, "R5", "app.NewHaqq#memory-store/"+name, P.Pos(instrPos(ci.Instr)), "tabled: "+allowedMem[name], "NewHaqq creates the memory store "+name+", which is not a tabled self-rebuilding store: whatever a module keeps there is lost when the node restarts")
						}
						return false
					})
				}
			})
			r.Count("R5 memory store keys created in NewHaqq", n)
		}
		bad := 0
		for _, fn := range P.Funcs {
			if isTestSupport(P, fn) || fn.Synthetic != "" || isGeneratedFile(P.FileOf(fnPos(fn))) || fnPkgPath(fn) == haqqMod+"/app" {
				continue
			}
			eachCall(fn, func(ci CallInfo) {
				if ci.Name != "KVStore" || !ci.Invoke && ci.Recv != "Context" {
					return
				}
				for _, a := range ci.Instr.Common().Args {
					hit := false
					backSlice(a).Any(func(v ssa.Value) bool {
						if namedName(deref(v.Type())) == "MemoryStoreKey" {
							hit = true
						}
						return hit
					})
					if hit {
						bad++
						r.Bad("R5", fnID(fn)+"#opens-memory-store", P.Pos(instrPos(ci.Instr)), "a Haqq function opens a memory store: its content does not survive a restart, so a restarted node computes with different data than one that kept running")
					}
				}
			})
		}
		// keeper fields of memory-store-key type
		for _, pk := range P.Pkgs {
			if pk.Types == nil || pk.PkgPath == haqqMod+"/app" {
				continue
			}
			sc2 := pk.Types.Scope()
			for _, nm := range sc2.Names() {
				tn, ok := sc2.Lookup(nm).(*types.TypeName)
				if !ok {
					continue
				}
				st, ok := tn.Type().Underlying().(*types.Struct)
				if !ok {
					continue
				}
				for i := 0; i < st.NumFields(); i++ {
					if namedName(deref(st.Field(i).Type())) == "MemoryStoreKey" {
						bad++
						r.Bad("R5", strings.TrimPrefix(pk.PkgPath, haqqMod+"/")+"."+nm+"#memory-store-key-field", P.Pos(st.Field(i).Pos()), "a Haqq type holds a *MemoryStoreKey: module data kept in a memory store is lost on restart")
					}
				}
			}
		}
		if bad == 0 {
			r.OK("R5", "no-haqq-memory-store", "", "no Haqq package outside app wiring refers to a memory store key")
		}
	}

	// ---------- R6 ----------
	r.Rule("R6", "REACH.no-state-access-at-construction: no function in the construction scope K (what NewHaqq and package initialisers call) creates an sdk.Context on the application's stores (BaseApp.NewContext / NewUncachedContext) — a start-up routine that reads state through keepers can also write it (GetModuleAccount creates missing accounts), outside any block, on the restarted node only")
	{
		nK, bad := 0, 0
		for _, fn := range sc.K.HaqqFuncs() {
			if isTestSupport(P, fn) {
				continue
			}
			nK++
			eachCall(fn, func(ci CallInfo) {
				if (ci.Name == "NewUncachedContext" || ci.Name == "NewContext") && (ci.Recv == "BaseApp" || ci.Recv == "Haqq") {
					// a context whose only use is the rebuild of the memory stores (R9) writes nothing that is persisted
					if v, isV := ci.Instr.(ssa.Value); isV && v.Referrers() != nil && len(*v.Referrers()) > 0 {
						onlyMem := true
						for _, u := range *v.Referrers() {
							uc, isCall := u.(ssa.CallInstruction)
							if !isCall || callInfo(uc).Name != "InitMemStore" || !strings.HasSuffix(callInfo(uc).PkgPath, "x/capability/keeper") {
								onlyMem = false
							}
						}
						if onlyMem {
							r.OK("R6", fnID(fn)+"#context-for-the-memory-store-only", P.Pos(instrPos(ci.Instr)), "the context is handed to the capability keeper's InitMemStore alone, which reads the persisted owners and writes the memory store only")
							return
						}
					}
					bad++
					r.Bad("R6", fnID(fn)+"#creates-context/"+ci.Name, P.Pos(instrPos(ci.Instr)), "the node's start-up path creates a context on the committed stores ("+ci.Name+"): whatever is read or written through it happens outside any block and only on a node that (re)starts — e.g. AccountKeeper.GetModuleAccount creating module accounts and bumping the account number, which changes the next app hash", sc.K.Chain(fn)...)
				}
			})
		}
		if bad == 0 {
			r.OK("R6", "scope-K", "", fmt.Sprintf("%d construction-scope functions examined: none creates a context on the stores", nK))
		}
		r.Floor("R6", "construction-scope functions", nK, 50)
	}

	// ---------- R2 ----------
	for _, id := range []string{"(*x/evm/keeper.Keeper).AddEVMExtensions", "(x/erc20/keeper.Keeper).RegisterERC20Extensions"} {
		fn, ok := P.FnOK(id)
		if !ok {
			r.OK("R2", id+"#unreachable", "", "function does not exist on this tree")
			continue
		}
		r.Check(!sc.S.Has(fn), "R2", id+"#unreachable", P.Pos(fnPos(fn)), "not reachable from any consensus root",
			"the run-time precompile registry mutator is reachable from consensus code: it replaces the in-memory registry and records the new addresses in the params, but after a restart AvailablePrecompiles rebuilds only the static registry, so Precompiles() panics on the recorded address (the node halts or diverges)", sc.S.Chain(fn)...)
	}
	// generally: stores to (evm Keeper).precompiles only in WithPrecompiles / AddEVMExtensions
	nP := 0
	for _, fn := range P.Funcs {
		if isTestSupport(P, fn) || fn.Synthetic != "" {
			continue
		}
		eachInstr(fn, func(in ssa.Instruction) {
			st, ok := in.(*ssa.Store)
			if !ok {
				return
			}
			if sn, f, ok := fieldOfAddr(st.Addr); ok && sn == "Keeper" && f == "precompiles" && pathHasSuffix(namedPkgPath(st.Addr.(*ssa.FieldAddr).X.Type()), "x/evm/keeper") {
				nP++
				owner := fnID(outermost(fn))
				r.Check(owner == "(*x/evm/keeper.Keeper).WithPrecompiles" || owner == "(*x/evm/keeper.Keeper).AddEVMExtensions" || owner == "x/evm/keeper.NewKeeper", "R2", owner+"#writes-precompiles", P.Pos(instrPos(in)), "confirmed writer", "the precompile registry field is assigned outside WithPrecompiles/AddEVMExtensions")
			}
		})
	}
	r.Floor("R2", "stores to evm Keeper.precompiles", nP, 2)

	// ---------- R3 ----------
	nh, ok := P.FnOK("app.NewHaqq")
	if !ok {
		r.Bad("R3", "anchor/NewHaqq", "", "not found")
		return
	}
	where := P.Pos(fnPos(nh))
	isRet := func(in ssa.Instruction) bool { _, ok := in.(*ssa.Return); return ok && in.Block() != nh.Recover }
	must := map[string]func(ci CallInfo) bool{
		"MountKVStores":        func(ci CallInfo) bool { return ci.Name == "MountKVStores" },
		"MountTransientStores": func(ci CallInfo) bool { return ci.Name == "MountTransientStores" },
		"MountMemoryStores":    func(ci CallInfo) bool { return ci.Name == "MountMemoryStores" },
		"WithPrecompiles(AvailablePrecompiles)": func(ci CallInfo) bool {
			return ci.Name == "WithPrecompiles" && backSlice(argN(ci.Instr, 0)).HasCall(func(g CallInfo) bool { return g.Name == "AvailablePrecompiles" })
		},
		"setAnteHandler":  func(ci CallInfo) bool { return ci.Name == "setAnteHandler" },
		"SetInitChainer":  func(ci CallInfo) bool { return ci.Name == "SetInitChainer" },
		"SetBeginBlocker": func(ci CallInfo) bool { return ci.Name == "SetBeginBlocker" },
		"SetEndBlocker":   func(ci CallInfo) bool { return ci.Name == "SetEndBlocker" },
	}
	for name, pred := range must {
		w := Precedes(nh, isCallMatching(pred), isRet, nil)
		r.Check(w == nil, "R3", "app.NewHaqq#"+name, where, "on every constructor path", "NewHaqq can return without "+name+": a restarted node would be wired differently from the one that produced the chain", P.witness(w)...)
	}
	// LoadLatestVersion on the loadLatest edge
	ll := paramBoolEdges(nh, "loadLatest")
	okLL := len(ll) > 0
	isLoad := isCallMatching(func(ci CallInfo) bool { return ci.Name == "LoadLatestVersion" })
	for _, e := range ll {
		if w := (PathQuery{Fn: nh, StartBlock: e.From.Succs[e.Succ], Block: isLoad, Target: isRet}).Search(); w != nil {
			okLL = false
		}
	}
	r.Check(okLL, "R3", "app.NewHaqq#LoadLatestVersion", where, "LoadLatestVersion when loadLatest", "with loadLatest the constructor can return without LoadLatestVersion (the node would start from an empty state)")
	// mounted keys ⊇ keys indexed for wiring
	created := map[string]bool{}
	eachCall(nh, func(ci CallInfo) {
		if ci.Name == "NewKVStoreKeys" || ci.Name == "NewTransientStoreKeys" || ci.Name == "NewMemoryStoreKeys" {
			backSlice(ci.Instr.Common().Args...).Any(func(v ssa.Value) bool {
				if s, ok := constString(v); ok {
					created[s] = true
				}
				return false
			})
		}
	})
	nIdx := 0
	eachInstr(nh, func(in ssa.Instruction) {
		l, ok := in.(*ssa.Lookup)
		if !ok {
			return
		}
		s, ok := constString(l.Index)
		if !ok || !strings.Contains(namedName(l.Type()), "StoreKey") {
			return
		}
		nIdx++
		if !created[s] {
			r.Bad("R3", "app.NewHaqq#store-key-created/"+s, P.Pos(instrPos(in)), "a keeper is wired with keys["+s+"] but that key is not created by NewKVStoreKeys/NewTransientStoreKeys/NewMemoryStoreKeys: the lookup yields nil and the store is never mounted")
		}
	})
	r.Floor("R3", "store-key lookups in NewHaqq", nIdx, 25)
	r.OK("R3", "app.NewHaqq#store-keys-created", where, fmt.Sprintf("%d created keys cover %d wiring lookups", len(created), nIdx))
}

// detProcessLocalWrites is rule R1 (also run over the positive-control package).
// importProcessLocal arms a per-module property with C20 R1 (same detector code) restricted to the module's
// packages: a ledger value memoised in process memory survives a reverted message / discarded cache context,
// so the stored ledger and what the keeper serves diverge (and a restarted node disagrees).
func importProcessLocal(r *Run, rule string, pkgs ...string) {
	r.Rule(rule, "OWN.state-in-the-multistore (C20 R1's detector restricted to "+strings.Join(pkgs, ", ")+"): consensus-reachable code of the module writes no process-local memory (keeper fields, maps/slices/pointers held by keeper-like types, sync/atomic/cache containers) — module state lives only in the multistore, which is what message atomicity, cache-context discard and restarts act on")
	sc := scopesOf(r)
	var abs []string
	for _, p := range pkgs {
		abs = append(abs, haqqMod+"/"+p)
	}
	r.Import(rule+"/C20.", []string{"R1"}, func(r2 *Run) { detProcessLocalWrites(r2, sc, abs...) })
	// and no write to a package-level variable of a Haqq package from the module's consensus code (C01 R4's detector)
	var fns []*ssa.Function
	for _, fn := range sc.S.HaqqFuncs() {
		pp := fnPkgPath(fn)
		for _, p := range abs {
			if pp == p || strings.HasPrefix(pp, p+"/") {
				fns = append(fns, fn)
				break
			}
		}
	}
	r.Import(rule+"/C01.", []string{"R4"}, func(r2 *Run) { detGlobalWrites(r2, sc, fns) })
}

func detProcessLocalWrites(r *Run, sc *Scopes, onlyPkgs ...string) {
	inOnly := func(fn *ssa.Function) bool {
		if len(onlyPkgs) == 0 {
			return true
		}
		pp := fnPkgPath(fn)
		for _, p := range onlyPkgs {
			if pp == p || strings.HasPrefix(pp, p+"/") {
				return true
			}
		}
		return false
	}
	P := r.P
	// roots of the held-by closure: every keeper-like named type of the analysed program
	heldMemo, heldRoots = nil, nil
	for _, pk := range P.Pkgs {
		if pk.Types == nil {
			continue
		}
		sc2 := pk.Types.Scope()
		for _, nm := range sc2.Names() {
			if tn, ok := sc2.Lookup(nm).(*types.TypeName); ok && isProcessLocalRoot(tn.Type()) {
				heldRoots = append(heldRoots, tn.Type())
			}
		}
	}
	// a Haqq struct type that a package-level variable holds (directly or through a pointer) lives as long as the
	// process too: a cache object behind `var cache = newCache()` is written through its pointer receiver
	held := heldByProcessLocal()
	for _, pk := range P.Pkgs {
		if pk.Types == nil {
			continue
		}
		sc2 := pk.Types.Scope()
		for _, nm := range sc2.Names() {
			v, ok := sc2.Lookup(nm).(*types.Var)
			if !ok {
				continue
			}
			t := deref(v.Type())
			if nt, ok := t.(*types.Named); ok && nt.Obj().Pkg() != nil && isHaqqPath(nt.Obj().Pkg().Path()) {
				if _, isStruct := nt.Underlying().(*types.Struct); isStruct {
					// values of message/param types kept in variables (defaults) are not containers: require a map,
					// slice, pointer, sync or atomic field
					st := nt.Underlying().(*types.Struct)
					container := false
					for i := 0; i < st.NumFields(); i++ {
						switch ft := st.Field(i).Type().Underlying().(type) {
						case *types.Map, *types.Slice, *types.Chan:
							container = true
						case *types.Struct:
							if p := namedPkgPath(st.Field(i).Type()); p == "sync" || p == "sync/atomic" {
								container = true
							}
							_ = ft
						}
					}
					if container && !isGeneratedFile(P.FileOf(v.Pos())) {
						held[nt.Obj().Pkg().Path()+"."+nt.Obj().Name()] = true
					}
				}
			}
		}
	}
	n, bad := 0, 0
	for _, fn := range sc.S.HaqqFuncs() {
		if isTestSupport(P, fn) || isGeneratedFile(P.FileOf(fnPos(fn))) || !inOnly(fn) {
			continue
		}
		eachInstr(fn, func(in ssa.Instruction) {
			var target ssa.Value
			kind := ""
			switch x := in.(type) {
			case *ssa.Store:
				target, kind = x.Addr, "store"
			case *ssa.MapUpdate:
				target, kind = x.Map, "map update"
			default:
				return
			}
			var what string
			var shared bool
			if kind == "map update" {
				// the map value itself: loaded from a field of a process-local struct?
				if u, ok := target.(*ssa.UnOp); ok && u.Op == token.MUL {
					if sn, f, ok := fieldOfAddr(u.X); ok && isProcessLocalType(u.X.(*ssa.FieldAddr).X.Type()) {
						what, shared = namedPkgPath(u.X.(*ssa.FieldAddr).X.Type())+"."+sn+"."+f, true
					}
				}
				if fv, ok := target.(*ssa.Field); ok && isProcessLocalType(fv.X.Type()) {
					sn, f, _ := fieldOfValue(fv)
					what, shared = namedPkgPath(fv.X.Type())+"."+sn+"."+f, true
				}
			} else {
				what, shared = sharedTarget(target)
				// a store directly into a local copy of a value receiver is not shared
				if _, isAlloc := addrRoot(target).(*ssa.Alloc); isAlloc {
					shared = false
				}
			}
			if !shared {
				return
			}
			n++
			owner := fnID(outermost(fn))
			inst := fmt.Sprintf("%s#writes-%s", fnID(fn), strings.TrimPrefix(what, haqqMod+"/"))
			if why, ok := processLocalWriteExceptions[owner]; ok {
				r.OK("R1", inst, P.Pos(instrPos(in)), "tabled idempotent site: "+why)
				return
			}
			bad++
			r.Bad("R1", inst, P.Pos(instrPos(in)), "consensus-reachable code writes process-local memory ("+kind+" into "+strings.TrimPrefix(what, haqqMod+"/")+"): the value lives only in this process, so a node restarted between blocks (or a second replica) continues with different in-memory state", sc.S.Chain(fn)...)
		})
	}
	// maps held in a field of a process-local struct: delete()/clear() on them, and handing them to a function that
	// writes into its map parameter (one level of summary)
	fieldHeld := func(v ssa.Value) (string, bool) {
		what, ok := "", false
		backSlice(v).Any(func(x ssa.Value) bool {
			if fa, isFA := x.(*ssa.FieldAddr); isFA && isProcessLocalType(fa.X.Type()) {
				if _, isMap := deref(fa.Type()).Underlying().(*types.Map); isMap {
					sn, f, _ := fieldOfAddr(fa)
					what, ok = namedPkgPath(fa.X.Type())+"."+sn+"."+f, true
				}
			}
			if fv, isF := x.(*ssa.Field); isF && isProcessLocalType(fv.X.Type()) {
				if _, isMap := fv.Type().Underlying().(*types.Map); isMap {
					sn, f, _ := fieldOfValue(fv)
					what, ok = namedPkgPath(fv.X.Type())+"."+sn+"."+f, true
				}
			}
			return ok
		})
		return what, ok
	}
	for _, fn := range sc.S.HaqqFuncs() {
		if isTestSupport(P, fn) || isGeneratedFile(P.FileOf(fnPos(fn))) || !inOnly(fn) {
			continue
		}
		eachInstr(fn, func(in ssa.Instruction) {
			c, ok := in.(ssa.CallInstruction)
			if !ok {
				return
			}
			if b, isB := c.Common().Value.(*ssa.Builtin); isB {
				if (b.Name() == "delete" || b.Name() == "clear") && len(c.Common().Args) > 0 {
					if what, held := fieldHeld(c.Common().Args[0]); held {
						n++
						bad++
						r.Bad("R1", fmt.Sprintf("%s#%s-on-%s", fnID(fn), b.Name(), strings.TrimPrefix(what, haqqMod+"/")), P.Pos(instrPos(in)), "consensus-reachable code removes entries from a map held by "+strings.TrimPrefix(what, haqqMod+"/")+": the map is process-local state shared by every transaction, simulation and CheckTx the process handles", sc.S.Chain(fn)...)
					}
				}
				return
			}
			callee := c.Common().StaticCallee()
			if callee == nil || !isHaqqPath(fnPkgPath(callee)) {
				return
			}
			mp := mutatesMapParam(callee)
			if len(mp) == 0 {
				return
			}
			for i, a := range c.Common().Args {
				if !mp[i] {
					continue
				}
				if what, held := fieldHeld(a); held {
					n++
					bad++
					r.Bad("R1", fmt.Sprintf("%s#passes-%s-to-%s", fnID(fn), strings.TrimPrefix(what, haqqMod+"/"), callee.Name()), P.Pos(instrPos(in)), "consensus-reachable code hands a map held by "+strings.TrimPrefix(what, haqqMod+"/")+" to "+fnID(callee)+", which writes into it: per-transaction bookkeeping kept in a process-local map survives failed transactions, simulations and CheckTx calls that only this node saw", sc.S.Chain(fn)...)
				}
			}
		})
	}
	// concurrent/caching containers held by process-local structs: mutating method calls
	for _, fn := range sc.S.HaqqFuncs() {
		if isTestSupport(P, fn) || isGeneratedFile(P.FileOf(fnPos(fn))) || !inOnly(fn) {
			continue
		}
		eachCall(fn, func(ci CallInfo) {
			isContainer := ci.PkgPath == "sync" || ci.PkgPath == "sync/atomic" || strings.HasPrefix(ci.PkgPath, "container/") || strings.Contains(ci.PkgPath, "golang-lru") || strings.Contains(ci.PkgPath, "/cache")
			if !isContainer {
				return
			}
			switch {
			case ci.Recv == "Map" || ci.Recv == "Value" || ci.Recv == "Cache" || ci.Recv == "List" || strings.HasPrefix(ci.Recv, "Int") || strings.HasPrefix(ci.Recv, "Uint") || ci.Recv == "Pointer" || ci.Recv == "Bool":
				switch ci.Name {
				case "Store", "LoadOrStore", "LoadAndDelete", "Delete", "Swap", "CompareAndSwap", "CompareAndDelete", "Add", "Set", "Put", "Remove", "PushBack", "PushFront", "Purge", "ContainsOrAdd":
				default:
					return
				}
			case ci.Recv == "" && ci.PkgPath == "sync/atomic" && (strings.HasPrefix(ci.Name, "Add") || strings.HasPrefix(ci.Name, "Store") || strings.HasPrefix(ci.Name, "Swap") || strings.HasPrefix(ci.Name, "CompareAndSwap")):
			default:
				return
			}
			args := callArgs(ci.Instr)
			if len(args) == 0 {
				return
			}
			what, shared := sharedTarget(args[0])
			if !shared {
				// receiver loaded from a field of a process-local struct
				backSlice(args[0]).Any(func(v ssa.Value) bool {
					if fa, ok := v.(*ssa.FieldAddr); ok && isProcessLocalType(fa.X.Type()) {
						sn, f, _ := fieldOfAddr(fa)
						what, shared = namedPkgPath(fa.X.Type())+"."+sn+"."+f, true
					}
					if fv, ok := v.(*ssa.Field); ok && isProcessLocalType(fv.X.Type()) {
						sn, f, _ := fieldOfValue(fv)
						what, shared = namedPkgPath(fv.X.Type())+"."+sn+"."+f, true
					}
					return false
				})
			}
			if !shared {
				return
			}
			n++
			inst := fmt.Sprintf("%s#%s.%s-on-%s", fnID(fn), ci.Recv, ci.Name, strings.TrimPrefix(what, haqqMod+"/"))
			if strings.Contains(what, "/app.tpsCounter") || strings.HasSuffix(what, "app.Haqq.tpsCounter") {
				r.OK("R1", inst, P.Pos(instrPos(ci.Instr)), "tabled observer: TPS counters are write-only in consensus code (C01 R5) and only logged")
				return
			}
			bad++
			r.Bad("R1", inst, P.Pos(instrPos(ci.Instr)), "consensus-reachable code mutates an in-memory container ("+ci.Recv+"."+ci.Name+") held by "+strings.TrimPrefix(what, haqqMod+"/")+": a process-local cache that a restarted node or a second replica does not share", sc.S.Chain(fn)...)
		})
	}
	if len(onlyPkgs) == 0 {
		r.Floor("R1", "writes to process-local memory in consensus scope", n, 1)
	}
	if bad == 0 {
		nf := 0
		for _, fn := range sc.S.HaqqFuncs() {
			if inOnly(fn) {
				nf++
			}
		}
		scope := "scope-S"
		if len(onlyPkgs) > 0 {
			scope = "scope-S∩" + strings.TrimPrefix(strings.Join(onlyPkgs, ","), haqqMod+"/")
			if nf == 0 {
				r.Bad("R1", scope, "", "no consensus-reachable function found in the module's packages: the restricted rule would pass vacuously")
				return
			}
		}
		r.OK("R1", scope, "", fmt.Sprintf("%d consensus-reachable function(s) examined, %d write(s) to process-local memory, all tabled", nf, n))
	}
}

// checkRederivedFieldReaders (C20 R4).
func checkRederivedFieldReaders(r *Run, sc *Scopes) {
	P := r.P
	type fld struct{ st, f string }
	fields := map[fld]bool{}
	for id := range processLocalWriteExceptions {
		fn, ok := P.FnOK(id)
		if !ok {
			continue
		}
		eachInstr(fn, func(in ssa.Instruction) {
			if st, ok := in.(*ssa.Store); ok {
				if sn, f, ok := fieldOfAddr(st.Addr); ok {
					fields[fld{sn, f}] = true
				}
			}
		})
	}
	if len(fields) == 0 {
		r.OK("R4", "no-rederived-fields", "", "no tabled re-derivation site exists on this tree")
		return
	}
	readsField := func(sl *Slice) bool {
		for k := range fields {
			if sl.HasField(k.st, k.f) {
				return true
			}
		}
		return false
	}
	// derives: the returned values of fn depend on a re-derived field (memoised, depth-bounded)
	memo := map[*ssa.Function]int{} // 0 unknown, 1 in progress/no, 2 yes
	var fnDerives func(fn *ssa.Function, depth int) bool
	var valDerives func(v ssa.Value, depth int) bool
	valDerives = func(v ssa.Value, depth int) bool {
		sl := backSlice(v)
		if readsField(sl) {
			return true
		}
		if depth <= 0 {
			return false
		}
		hit := false
		sl.Any(func(x ssa.Value) bool {
			c, ok := x.(*ssa.Call)
			if !ok {
				return false
			}
			ci := callInfo(c)
			if ci.Static != nil && ci.Static.Blocks != nil && isHaqqPath(fnPkgPath(ci.Static)) && fnDerives(ci.Static, depth-1) {
				hit = true
				return true
			}
			return false
		})
		return hit
	}
	fnDerives = func(fn *ssa.Function, depth int) bool {
		if m := memo[fn]; m != 0 {
			return m == 2
		}
		memo[fn] = 1
		res := false
		eachInstr(fn, func(in ssa.Instruction) {
			if ret, ok := in.(*ssa.Return); ok && !res {
				for _, o := range retOperands(ret) {
					if valDerives(o, depth) {
						res = true
					}
				}
			}
		})
		if res {
			memo[fn] = 2
		}
		return res
	}
	// query scope Q: Haqq functions reachable from the methods with which Haqq types implement a QueryServer interface
	qroots := map[*ssa.Function]string{}
	for _, sp := range P.SSA.AllPackages() {
		tn, ok := sp.Pkg.Scope().Lookup("QueryServer").(*types.TypeName)
		if !ok {
			continue
		}
		I, ok := tn.Type().Underlying().(*types.Interface)
		if !ok || I.NumMethods() == 0 {
			continue
		}
		for _, t := range sc.G.concrete {
			if !types.Implements(t, I) {
				continue
			}
			ms := P.SSA.MethodSets.MethodSet(t)
			for i := 0; i < I.NumMethods(); i++ {
				if sel := ms.Lookup(I.Method(i).Pkg(), I.Method(i).Name()); sel != nil {
					if fn := P.SSA.MethodValue(sel); fn != nil && fn.Blocks != nil && isHaqqPath(fnPkgPath(fn)) {
						qroots[fn] = "QueryServer of " + strings.TrimPrefix(sp.Pkg.Path(), haqqMod+"/")
					}
				}
			}
		}
	}
	Q := sc.G.Reach(qroots, nil)
	r.Count("R4 query-server methods (roots of the query scope)", len(qroots))
	n := 0
	for _, fn := range Q.HaqqFuncs() {
		if isTestSupport(P, fn) || isGeneratedFile(P.FileOf(fnPos(fn))) {
			continue
		}
		eachCall(fn, func(ci CallInfo) {
			if ci.Name != "EVMConfig" || ci.Recv != "Keeper" || !pathHasSuffix(ci.PkgPath, "x/evm/keeper") {
				return
			}
			args := callArgs(ci.Instr)
			if len(args) == 0 {
				return
			}
			chainArg := args[len(args)-1]
			n++
			r.Check(!valDerives(chainArg, 3), "R4", fnID(fn)+"#EVMConfig-chain-id", P.Pos(instrPos(ci.Instr)), "chain id comes from the request or ctx.ChainID()",
				"a function reachable from a gRPC query server builds its EVM configuration from the keeper's in-memory chain id, which is nil on a node restarted at a block boundary until its first BeginBlock: the same query is answered differently (nil dereference / chain id 0) by a restarted node and by one that kept running", Q.Chain(fn)...)
		})
	}
	r.Count("R4 EVMConfig calls in query scope", n)
	r.Floor("R4", "EVMConfig calls in query scope", n, 4)

	// R7: "has this process seen a block yet" decides nothing
	r.Rule("R7", "FLOW.late-bound-fields-steer-nothing: the process-local fields that the tabled sites re-derive in BeginBlock are nil exactly on a node that has just (re)started; in consensus scope no branch condition compares such a field (or a getter of it) unless one side of the branch only panics (the consistency check of the re-derivation itself) or the two sides differ only in the tabled re-derivation (nothing that takes a Context runs on one side only) — a branch like `if k.eip155ChainID != nil { return }` makes the first block after a restart do work that the nodes which kept running skip")
	nBr := 0
	// the field itself, or a getter that returns the field and nothing else
	isFieldLoad := func(v ssa.Value) bool {
		u, ok := stripValue(v).(*ssa.UnOp)
		if !ok || u.Op != token.MUL {
			return false
		}
		sn, f, ok := fieldOfAddr(u.X)
		return ok && fields[fld{sn, f}]
	}
	isGetter := func(fn *ssa.Function) bool {
		if fn == nil || len(fn.Blocks) != 1 {
			return false
		}
		ret, ok := fn.Blocks[0].Instrs[len(fn.Blocks[0].Instrs)-1].(*ssa.Return)
		return ok && len(ret.Results) == 1 && isFieldLoad(ret.Results[0])
	}
	// only comparisons of the field itself count: values computed from it by other functions (the EVM
	// configuration, execution results) legitimately steer consensus code once BeginBlock has run
	var directReads func(v ssa.Value, d int) bool
	directReads = func(v ssa.Value, d int) bool {
		if d > 8 {
			return false
		}
		if isFieldLoad(v) {
			return true
		}
		switch x := v.(type) {
		case *ssa.UnOp:
			if x.Op == token.NOT {
				return directReads(x.X, d+1)
			}
		case *ssa.BinOp:
			return directReads(x.X, d+1) || directReads(x.Y, d+1)
		case *ssa.Phi:
			for _, e := range x.Edges {
				if directReads(e, d+1) {
					return true
				}
			}
		case *ssa.ChangeType:
			return directReads(x.X, d+1)
		case *ssa.Convert:
			return directReads(x.X, d+1)
		case *ssa.Call:
			sc := x.Call.StaticCallee()
			if isGetter(sc) {
				return true
			}
			if sc != nil && sc.Signature.Recv() != nil && isBigNumberPtr(sc.Signature.Recv().Type()) {
				for _, a := range x.Call.Args {
					if directReads(a, d+1) {
						return true
					}
				}
			}
		}
		return false
	}
	condReads := func(c ssa.Value) bool { return directReads(c, 0) }
	for _, fn := range sc.S.HaqqFuncs() {
		if isTestSupport(P, fn) || isGeneratedFile(P.FileOf(fnPos(fn))) {
			continue
		}
		for _, b := range fn.Blocks {
			ifi, ok := lastIf(b)
			if !ok || !condReads(ifi.Cond) {
				continue
			}
			nBr++
			onlyPanics := func(bb *ssa.BasicBlock) bool {
				seen := map[*ssa.BasicBlock]bool{}
				var walk func(x *ssa.BasicBlock) bool
				walk = func(x *ssa.BasicBlock) bool {
					if seen[x] {
						return true
					}
					seen[x] = true
					if len(x.Instrs) == 0 {
						return false
					}
					switch x.Instrs[len(x.Instrs)-1].(type) {
					case *ssa.Panic:
						return true
					case *ssa.Return:
						return false
					}
					if len(x.Succs) == 0 {
						return false
					}
					for _, s2 := range x.Succs {
						// a nested test of the same field on the way to the panic is part of the same consistency check
						if !walk(s2) {
							return false
						}
					}
					return true
				}
				return walk(bb)
			}
			ok2 := false
			for _, sc2 := range b.Succs {
				if onlyPanics(sc2) {
					ok2 = true
				}
			}
			// `a != nil && a.Cmp(b) != 0 → panic`: the first test's false edge skips the panic; accept when the
			// other successor is another test of the same field whose one side only panics
			if !ok2 {
				for _, sc2 := range b.Succs {
					if i2, isIf := lastIf(sc2); isIf && condReads(i2.Cond) {
						for _, s3 := range sc2.Succs {
							if onlyPanics(s3) {
								ok2 = true
							}
						}
					}
				}
			}
			// the two sides differ only in the tabled re-derivation itself: nothing that takes a Context (state access)
			// is reachable on one side only
			how := "the branch only guards a panic (consistency check)"
			if !ok2 && len(b.Succs) == 2 {
				reach := func(from *ssa.BasicBlock) map[*ssa.BasicBlock]bool {
					m := map[*ssa.BasicBlock]bool{}
					var walk func(x *ssa.BasicBlock)
					walk = func(x *ssa.BasicBlock) {
						if m[x] {
							return
						}
						m[x] = true
						for _, s2 := range x.Succs {
							walk(s2)
						}
					}
					walk(from)
					return m
				}
				r0, r1 := reach(b.Succs[0]), reach(b.Succs[1])
				stateful := false
				for _, bb := range fn.Blocks {
					if r0[bb] == r1[bb] {
						continue
					}
					for _, in := range bb.Instrs {
						c, isC := in.(ssa.CallInstruction)
						if !isC {
							continue
						}
						if sc3 := c.Common().StaticCallee(); sc3 != nil {
							if _, tabled := processLocalWriteExceptions[fnID(sc3)]; tabled {
								continue
							}
						}
						for _, a := range c.Common().Args {
							if namedName(a.Type()) == "Context" {
								stateful = true
							}
						}
					}
				}
				if !stateful {
					ok2, how = true, "the two sides differ only in the tabled re-derivation (no state access on one side only)"
				}
			}
			r.Check(ok2, "R7", fmt.Sprintf("%s#branch-on-late-bound-field@%s", fnID(fn), b.Comment), P.Pos(instrPos(ifi)), how,
				"consensus code branches on a keeper field that is nil only until the process has seen its first block: a node restarted at a block boundary takes the other side of this branch than the nodes that kept running, in the same block", sc.S.Chain(fn)...)
		}
	}
	r.Floor("R7", "consensus-scope branches on late-bound fields", nBr, 1)
}

// mutatesMapParam: indices of the map-typed parameters fn (or its closures) writes into or deletes from.
func mutatesMapParam(fn *ssa.Function) map[int]bool {
	out := map[int]bool{}
	if fn == nil || fn.Blocks == nil {
		return out
	}
	for _, f := range withAnon(fn) {
		eachInstr(f, func(in ssa.Instruction) {
			var m ssa.Value
			switch x := in.(type) {
			case *ssa.MapUpdate:
				m = x.Map
			case *ssa.Call:
				if b, ok := x.Call.Value.(*ssa.Builtin); ok && (b.Name() == "delete" || b.Name() == "clear") && len(x.Call.Args) > 0 {
					m = x.Call.Args[0]
				}
			}
			if m == nil {
				return
			}
			if p, ok := stripValue(m).(*ssa.Parameter); ok {
				out[paramIndex(fn, p)] = true
			}
		})
	}
	return out
}
