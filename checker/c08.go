package main

import (
	"fmt"
	"go/types"
	"strings"

	"golang.org/x/tools/go/ssa"
)

func init() {
	register(&propDef{
		ID:  "C08",
		Run: runC08,
		Explanation: "Static analysis of how Haqq keeps locked/unvested coins in place: (R1) the clawback account type implements the SDK VestingAccount interface that the bank keeper consults on every debit, and LockedCoins is composed of original vesting, unlocked-vested, delegated and locked-up-vested amounts; " +
			"(R3) the SDK staking message server is only reachable through the Haqq wrapper (module registration, precompile), the app registers the Haqq staking module, and the only direct SDK Keeper.Delegate call delegates an amount read from the new grant's own schedule; " +
			"(R4) the wrapper's Delegate/CreateValidator run the unvested-amount check first and the check rejects amounts above balance − unvested; (R5) the eth vesting decorator is in the chain before fee deduction and rejects spending above the spendable balance; " +
			"(R6) every write of a vesting account's EndTime depends on both the lockup and the vesting schedule (ReadSchedule treats everything as released from EndTime on).",
		Assumptions: []string{"the cosmos-sdk bank keeper calls LockedCoins on every account debit (subUnlockedCoins)", "Haqq code reaches bank balances only through the bank keeper (C15)"},
		Declined:    []string{"the inequality balance ≥ locked over all histories", "delegation-tracking arithmetic (TrackDelegation / DelegatedFree)"},
		Thorough:    wholeProgramBankDebits,
	})
}

func runC08(r *Run) {
	P := r.P
	r.Rule("R1", "TYPE/FLOW: *ClawbackVestingAccount implements vesting/exported.VestingAccount; LockedCoins depends on OriginalVesting, GetUnlockedVestedCoins, DelegatedFree and GetLockedUpVestedCoins")
	r.Rule("R3", "OWN.staking-entry: cosmos-sdk x/staking/keeper.NewMsgServerImpl is called only by the Haqq wrapper constructor; x/staking AppModule.RegisterServices registers the wrapper; NewHaqq's module manager contains the Haqq staking module and not the SDK one; SDK Keeper.Delegate is called directly only from vesting.delegateVestedCoins with an amount derived from ReadSchedule over the message's own vesting periods")
	r.Rule("R4", "PATH: wrapper Delegate/CreateValidator reach the embedded message server only after an error-checked validateDelegationAmountNotUnvested(msg delegator, msg amount); the validator returns nil only over the passing edge of delegatable < amount (bypass: not a clawback account), with delegatable = f(GetBalance, GetVestingCoins(block time))")
	r.Rule("R5", "TABLE/PATH: EthVestingTransactionDecorator precedes EthGasConsumeDecorator; per clawback-account message next is reachable only where total spend ≤ spendable, spendable = balance − LockedCoins(block time)")
	r.Rule("R6", "FLOW.endtime: every store to BaseVestingAccount.EndTime in x/vesting (non-generated) depends on both the lockup and the vesting periods")

	// ---------- R1 ----------
	va := P.LookupType(haqqMod+"/x/vesting/types", "ClawbackVestingAccount")
	vi := P.lookupIface("github.com/cosmos/cosmos-sdk/x/auth/vesting/exported", "VestingAccount")
	if va == nil || vi == nil {
		r.Bad("R1", "anchor/ClawbackVestingAccount", "", "ClawbackVestingAccount or the SDK VestingAccount interface not found")
	} else {
		ok := types.Implements(types.NewPointer(va.Type()), vi)
		r.Check(ok, "R1", "x/vesting/types.ClawbackVestingAccount#implements-VestingAccount", P.Pos(va.Pos()), "bank keeper sees the account as a vesting account", "*ClawbackVestingAccount no longer implements the SDK VestingAccount interface: the bank keeper would treat all its coins as spendable")
	}
	if lc, ok := P.FnOK("(x/vesting/types.ClawbackVestingAccount).LockedCoins"); ok {
		okDeps, n := true, 0
		eachInstr(lc, func(in ssa.Instruction) {
			ret, isR := in.(*ssa.Return)
			if !isR {
				return
			}
			v := retOperands(ret)[0]
			if c, isC := v.(*ssa.Const); isC && c.Value == nil {
				return
			}
			if _, isMk := stripValue(v).(*ssa.MakeSlice); isMk { // `return sdk.Coins{}` safety branch
				return
			}
			s := backSlice(v)
			if sl, isSl := v.(*ssa.Slice); isSl {
				_ = sl
			}
			if len(s.Vals) < 4 {
				return
			}
			n++
			need := map[string]bool{
				"OriginalVesting":        s.HasField("BaseVestingAccount", "OriginalVesting"),
				"GetUnlockedVestedCoins": s.HasCall(func(ci CallInfo) bool { return ci.Name == "GetUnlockedVestedCoins" }),
				"DelegatedFree":          s.HasField("BaseVestingAccount", "DelegatedFree"),
				"GetLockedUpVestedCoins": s.HasCall(func(ci CallInfo) bool { return ci.Name == "GetLockedUpVestedCoins" }),
			}
			for k, v := range need {
				if !v {
					okDeps = false
					r.Note("LockedCoins result does not depend on %s", k)
				}
			}
		})
		r.Check(okDeps && n >= 1, "R1", fnID(lc)+"#composition", P.Pos(fnPos(lc)), "locked = original − (unlocked vested + min(delegated, locked-up vested))", "LockedCoins no longer depends on OriginalVesting, GetUnlockedVestedCoins, DelegatedFree and GetLockedUpVestedCoins")
	} else {
		r.Bad("R1", "anchor/LockedCoins", "", "ClawbackVestingAccount.LockedCoins not found")
	}

	// ---------- R3 ----------
	nCtor, nDeleg := 0, 0
	for _, fn := range P.Funcs {
		if isTestSupport(P, fn) || fn.Synthetic != "" {
			continue
		}
		owner := fnID(outermost(fn))
		eachCall(fn, func(ci CallInfo) {
			if ci.Name == "NewMsgServerImpl" && ci.PkgPath == "github.com/cosmos/cosmos-sdk/x/staking/keeper" {
				nCtor++
				r.Check(owner == "x/staking/keeper.NewMsgServerImpl", "R3", owner+"#sdk-staking-NewMsgServerImpl", P.Pos(instrPos(ci.Instr)), "only the Haqq wrapper builds the SDK staking message server",
					"the cosmos-sdk staking message server is constructed outside the Haqq wrapper: delegations through it skip the unvested-coins check")
			}
			if ci.Name == "Delegate" && ci.Recv == "Keeper" && strings.HasSuffix(ci.PkgPath, "x/staking/keeper") && ci.Instr.Common().Signature().Params().Len() >= 5 {
				nDeleg++
				okSite := owner == "(x/vesting/keeper.Keeper).delegateVestedCoins"
				amt := backSlice(argN(ci.Instr, 2))
				okAmt := amt.HasCall(func(g CallInfo) bool { return g.Name == "ReadSchedule" }) &&
					amt.HasCall(func(g CallInfo) bool { return g.Name == "GetVestingPeriods" && backSlice(callArgs(g.Instr)[0]).HasParam("msg") }) &&
					!amt.HasCall(func(g CallInfo) bool { return g.Name == "GetAccount" || g.Name == "GetVestedCoins" || g.Name == "GetBalance" })
				r.Check(okSite && okAmt, "R3", owner+"#sdk-Keeper.Delegate", P.Pos(instrPos(ci.Instr)), "delegates only what the new grant's own schedule has vested",
					"direct call of the SDK staking Keeper.Delegate (no unvested check) whose amount is not ReadSchedule over the message's own vesting periods: unvested coins can be bonded")
			}
		})
	}
	r.Floor("R3", "SDK staking NewMsgServerImpl call sites", nCtor, 1)
	r.Floor("R3", "direct SDK Keeper.Delegate call sites", nDeleg, 1)
	if rs, ok := P.FnOK("(x/staking.AppModule).RegisterServices"); ok {
		okReg := false
		eachCall(rs, func(ci CallInfo) {
			if ci.Name == "RegisterMsgServer" {
				okReg = backSlice(argN(ci.Instr, 1)).HasCall(func(g CallInfo) bool { return g.Name == "NewMsgServerImpl" && g.PkgPath == haqqMod+"/x/staking/keeper" })
			}
		})
		r.Check(okReg, "R3", fnID(rs)+"#registers-wrapper", P.Pos(fnPos(rs)), "RegisterMsgServer(…, haqq NewMsgServerImpl(…))", "the staking module no longer registers the Haqq message-server wrapper")
	} else {
		r.Bad("R3", "anchor/x/staking.AppModule.RegisterServices", "", "not found")
	}
	if nh, ok := P.FnOK("app.NewHaqq"); ok {
		hasHaqq, hasSDK := false, false
		eachCall(nh, func(ci CallInfo) {
			if ci.Name != "NewManager" || !strings.HasSuffix(ci.PkgPath, "types/module") {
				return
			}
			backSlice(ci.Instr.Common().Args...).Any(func(v ssa.Value) bool {
				t := v.Type()
				if namedName(t) == "AppModule" {
					switch namedPkgPath(t) {
					case haqqMod + "/x/staking":
						hasHaqq = true
					case "github.com/cosmos/cosmos-sdk/x/staking":
						// the SDK module value only appears wrapped inside the Haqq module constructor (different function)
						if mi, ok := v.(*ssa.MakeInterface); ok {
							_ = mi
							hasSDK = true
						}
					}
				}
				return false
			})
		})
		r.Check(hasHaqq && !hasSDK, "R3", "app.NewHaqq#staking-module", P.Pos(fnPos(nh)), "module manager holds the Haqq staking module", "the module manager registers the cosmos-sdk staking module directly (its RegisterServices installs the unwrapped message server)")
	}

	// ---------- R4 ----------
	for _, mname := range []string{"Delegate", "CreateValidator"} {
		fn, ok := P.FnOK("(x/staking/keeper.msgServer)." + mname)
		if !ok {
			r.Bad("R4", "anchor/x/staking/keeper.msgServer."+mname, "", "wrapper method not found: "+mname+" would fall through to the SDK message server without the unvested check")
			continue
		}
		isCheck := isCallMatching(func(ci CallInfo) bool {
			if ci.Name != "validateDelegationAmountNotUnvested" || !errHandled(ci.Instr) {
				return false
			}
			d := backSlice(argN(ci.Instr, 1))
			a := backSlice(argN(ci.Instr, 2))
			return d.HasField("", "DelegatorAddress") && d.HasParam("msg") && a.HasParam("msg") && (a.HasField("", "Amount") || a.HasField("", "Value"))
		})
		isInner := isCallMatching(func(ci CallInfo) bool { return ci.Invoke && ci.Recv == "MsgServer" && ci.Name == mname })
		w := Precedes(fn, isCheck, isInner, nil)
		r.Check(w == nil, "R4", fnID(fn)+"#check-before-dispatch", P.Pos(fnPos(fn)), "unvested check precedes the SDK handler", "the SDK staking handler is reachable without validateDelegationAmountNotUnvested(msg.DelegatorAddress, amount)", P.witness(w)...)
		w = Precedes(fn, isInner, isSuccessExit, nil)
		r.Check(w == nil, "R4", fnID(fn)+"#dispatches", P.Pos(fnPos(fn)), "delegates to the SDK handler", "the wrapper can succeed without calling the SDK handler", P.witness(w)...)
	}
	if vf, ok := P.FnOK("(x/staking/keeper.msgServer).validateDelegationAmountNotUnvested"); ok {
		notClawback := []Edge{}
		for _, a := range typeAssertsTo(vf, "x/vesting/types", "ClawbackVestingAccount") {
			notClawback = append(notClawback, a.NoEdges...)
		}
		requireGuard(r, "R4", fnID(vf)+"#rejects-unvested", vf, func(cond ssa.Value) (bool, bool) {
			c, ok := callNamed(cond, "LT")
			if !ok {
				return false, false
			}
			a := callArgs(c)
			d := backSlice(a[0])
			okDeps := d.HasCall(func(g CallInfo) bool { return g.Name == "GetBalance" }) && d.HasCall(func(g CallInfo) bool { return g.Name == "GetVestingCoins" }) && d.HasCall(func(g CallInfo) bool { return g.Name == "BlockTime" })
			return false, okDeps && isParam(a[1], "amount")
		}, notClawback, isSuccessExit, "nil only where amount ≤ balance − unvested (bypass: not a clawback account)", "the validator can return nil for a clawback account although the amount exceeds balance − unvested")
		r.Check(len(notClawback) > 0, "R4", fnID(vf)+"#clawback-assert", P.Pos(fnPos(vf)), "account type is asserted", "the validator no longer distinguishes clawback vesting accounts")
		// shape of the limit: delegatable = balance − unvested, where the subtrahend is exactly the unvested amount
		// of the bond denom (GetVestingCoins(block time).AmountOf(bondDenom)) with no further arithmetic, and the
		// minuend is the bank balance of the bond denom
		okShape, nSub := false, 0
		eachCall(vf, func(ci CallInfo) {
			if ci.Name != "Sub" {
				return
			}
			a := ci.Instr.Common().Args
			if len(a) != 2 {
				return
			}
			minu, subt := backSlice(a[0]), backSlice(a[1])
			if !minu.HasCall(func(g CallInfo) bool { return g.Name == "GetBalance" }) {
				return
			}
			nSub++
			arith := func(s *Slice) bool {
				return s.Any(func(v ssa.Value) bool {
					c, ok := v.(*ssa.Call)
					if !ok {
						return false
					}
					switch callInfo(c).Name {
					case "Add", "Sub", "Mul", "Quo", "Neg", "MaxInt", "MinInt", "Max", "Min", "AddRaw", "SubRaw", "SafeSub", "GetDelegatedFree", "GetDelegatedVesting", "GetVestedCoins", "GetLockedUpCoins", "GetUnlockedCoins", "LockedCoins":
						return true
					}
					return false
				})
			}
			if subt.HasCall(func(g CallInfo) bool { return g.Name == "GetVestingCoins" }) && subt.HasCall(func(g CallInfo) bool { return g.Name == "AmountOf" }) && !arith(subt) && !minu.HasCall(func(g CallInfo) bool { return g.Name == "GetVestingCoins" }) && !arith(minu) {
				okShape = true
			}
		})
		r.Check(okShape && nSub == 1, "R4", fnID(vf)+"#delegatable-shape", P.Pos(fnPos(vf)), "delegatable = GetBalance(bond denom) − GetVestingCoins(block time).AmountOf(bond denom)",
			"the delegation limit is no longer exactly balance − unvested: something else is added to or subtracted from one of the two operands (e.g. tracked delegations), so unvested coins can be bonded")
	} else {
		r.Bad("R4", "anchor/validateDelegationAmountNotUnvested", "", "not found")
	}

	// ---------- R5 ----------
	if c := anteChains(r)["newEVMAnteHandler"]; c != nil {
		requireOrder(r, "R5", "newEVMAnteHandler", c, "EthVestingTransactionDecorator", "EthGasConsumeDecorator")
		requireOrder(r, "R5", "newEVMAnteHandler", c, "EthSigVerificationDecorator", "EthVestingTransactionDecorator")
	}
	if vd, ok := P.FnOK("(app/ante/evm.EthVestingTransactionDecorator).AnteHandle"); ok {
		next := nextCallPred(vd)
		cl := typeAssertsTo(vd, "x/vesting/types", "ClawbackVestingAccount")
		r.Floor("R5", "clawback assertions in the vesting decorator", len(cl), 1)
		starts := assertOkBlocks(cl)
		target := func(in ssa.Instruction) bool {
			if next(in) {
				return true
			}
			for _, b := range starts {
				if reentersLoop(b)(in) {
					return true
				}
			}
			return false
		}
		requireGuardFrom(r, "R5", fnID(vd)+"#spend-within-spendable", vd, starts, func(cond ssa.Value) (bool, bool) {
			b, ok := cond.(*ssa.BinOp)
			if !ok {
				return false, false
			}
			if n, okc := constInt(b.Y); !okc || n != 0 {
				return false, false
			}
			c, okc := callNamed(b.X, "Cmp")
			if !okc {
				return false, false
			}
			a := callArgs(c)
			if !(backSlice(a[0]).HasField("ethVestingExpenseTracker", "total") && backSlice(a[1]).HasField("ethVestingExpenseTracker", "spendable")) {
				return false, false
			}
			return b.Op.String() == "<=", b.Op.String() == ">" || b.Op.String() == "<="
		}, nil, target, "a clawback account's message passes only where total ≤ spendable", "a clawback vesting account's message can pass although its accumulated value exceeds the spendable balance")
		if ue, ok := P.FnOK("(app/ante/evm.EthVestingTransactionDecorator).updateAccountExpenses"); ok {
			okSp := false
			eachInstr(ue, func(in ssa.Instruction) {
				if st, ok := in.(*ssa.Store); ok {
					if sn, f, ok := fieldOfAddr(st.Addr); ok && sn == "ethVestingExpenseTracker" && f == "spendable" {
						s := backSlice(st.Val)
						okSp = s.HasCall(func(g CallInfo) bool { return g.Name == "GetBalance" }) && s.HasCall(func(g CallInfo) bool { return g.Name == "LockedCoins" }) && s.HasCall(func(g CallInfo) bool { return g.Name == "BlockTime" })
					}
				}
			})
			r.Check(okSp, "R5", fnID(ue)+"#spendable", P.Pos(fnPos(ue)), "spendable = balance − LockedCoins(block time)", "the tracker's spendable amount no longer derives from GetBalance and LockedCoins(ctx.BlockTime())")
		}
	} else {
		r.Bad("R5", "anchor/EthVestingTransactionDecorator.AnteHandle", "", "not found")
	}

	// ---------- R6 ----------
	checkEndTimeStores(r, "R6")

	// ---------- R7 ----------
	r.Rule("R7", "SHAPE.locked-definitions: the definitional one-liners LockedCoins is built from have their defining shape — GetUnlockedCoins = ReadSchedule(…, LockupPeriods, OriginalVesting, t); GetVestedCoins = ReadSchedule(…, VestingPeriods, OriginalVesting, t); GetUnlockedVestedCoins = Min(GetUnlockedCoins, GetVestedCoins); GetVestingCoins = OriginalVesting − GetVestedCoins; GetLockedUpCoins = OriginalVesting − GetUnlockedCoins; GetLockedUpVestedCoins = GetVestedCoins − GetUnlockedVestedCoins; LockedCoins = OriginalVesting − (GetUnlockedVestedCoins + Min(DelegatedFree + DelegatedVesting, GetLockedUpVestedCoins))")
	const vaPfx = "(x/vesting/types.ClawbackVestingAccount)."
	hasCallNamed := func(v ssa.Value, name string) bool {
		return backSlice(v).HasCall(func(g CallInfo) bool { return g.Name == name })
	}
	hasFieldNamed := func(v ssa.Value, f string) bool { return backSlice(v).HasField("", f) }
	// the defining operation: some return operand (or, for LockedCoins, the SafeSub) is a call `name` whose
	// receiver and argument satisfy the two predicates (in this order, or swapped when commutative)
	type shape struct {
		fn, op      string
		recv, arg   func(ssa.Value) bool
		commutative bool
		text        string
	}
	shapes := []shape{
		{"GetUnlockedCoins", "ReadSchedule", nil, nil, false, "ReadSchedule over LockupPeriods and OriginalVesting"},
		{"GetVestedCoins", "ReadSchedule", nil, nil, false, "ReadSchedule over VestingPeriods and OriginalVesting"},
		{"GetUnlockedVestedCoins", "Min", func(v ssa.Value) bool { return hasCallNamed(v, "GetUnlockedCoins") }, func(v ssa.Value) bool { return hasCallNamed(v, "GetVestedCoins") }, true, "Min(GetUnlockedCoins, GetVestedCoins)"},
		{"GetVestingCoins", "Sub", func(v ssa.Value) bool { return hasFieldNamed(v, "OriginalVesting") && !hasCallNamed(v, "GetVestedCoins") }, func(v ssa.Value) bool { return hasCallNamed(v, "GetVestedCoins") }, false, "OriginalVesting − GetVestedCoins"},
		{"GetLockedUpCoins", "Sub", func(v ssa.Value) bool { return hasFieldNamed(v, "OriginalVesting") && !hasCallNamed(v, "GetUnlockedCoins") }, func(v ssa.Value) bool { return hasCallNamed(v, "GetUnlockedCoins") }, false, "OriginalVesting − GetUnlockedCoins"},
		{"GetLockedUpVestedCoins", "Sub", func(v ssa.Value) bool { return hasCallNamed(v, "GetVestedCoins") && !hasCallNamed(v, "GetUnlockedVestedCoins") }, func(v ssa.Value) bool { return hasCallNamed(v, "GetUnlockedVestedCoins") }, false, "GetVestedCoins − GetUnlockedVestedCoins"},
		{"LockedCoins", "SafeSub", func(v ssa.Value) bool { return hasFieldNamed(v, "OriginalVesting") && !hasCallNamed(v, "GetUnlockedVestedCoins") }, func(v ssa.Value) bool {
			return hasCallNamed(v, "GetUnlockedVestedCoins") && hasCallNamed(v, "Add") && hasCallNamed(v, "Min") && hasCallNamed(v, "GetLockedUpVestedCoins") && hasFieldNamed(v, "DelegatedFree")
		}, false, "OriginalVesting − (GetUnlockedVestedCoins + Min(DelegatedFree + DelegatedVesting, GetLockedUpVestedCoins))"},
	}
	for _, sh := range shapes {
		fn, ok := P.FnOK(vaPfx + sh.fn)
		if !ok {
			r.Bad("R7", "anchor/"+sh.fn, "", "not found")
			continue
		}
		found := false
		eachCall(fn, func(ci CallInfo) {
			if ci.Name != sh.op || found {
				return
			}
			args := ci.Instr.Common().Args
			if sh.op == "ReadSchedule" {
				if len(args) != 5 {
					return
				}
				periodsField := map[string]string{"GetUnlockedCoins": "LockupPeriods", "GetVestedCoins": "VestingPeriods"}[sh.fn]
				other := map[string]string{"GetUnlockedCoins": "VestingPeriods", "GetVestedCoins": "LockupPeriods"}[sh.fn]
				found = hasFieldNamed(args[2], periodsField) && !hasFieldNamed(args[2], other) && hasFieldNamed(args[3], "OriginalVesting") && backSlice(args[4]).HasParam("blockTime") &&
					(hasFieldNamed(args[0], "StartTime") || hasCallNamed(args[0], "GetStartTime")) && hasFieldNamed(args[1], "EndTime")
				return
			}
			if len(args) < 2 {
				return
			}
			a, b := args[0], args[1]
			if sh.recv(a) && sh.arg(b) || sh.commutative && sh.recv(b) && sh.arg(a) {
				// and the result is what the function returns (or, for SafeSub, its first component)
				sl := false
				eachInstr(fn, func(in ssa.Instruction) {
					if ret, ok := in.(*ssa.Return); ok {
						for _, op := range retOperands(ret) {
							if backSlice(op).Has(ci.Instr.Value()) {
								sl = true
							}
						}
					}
				})
				found = sl
			}
		})
		r.Check(found, "R7", vaPfx+sh.fn+"#definition", P.Pos(fnPos(fn)), sh.text, "ClawbackVestingAccount."+sh.fn+" no longer has its defining shape ("+sh.text+"): the locked amount the bank keeper enforces is computed from a different combination of the schedules")
	}
	// R8: a clawback account stops being one only when nothing is locked up or unvested any more
	r.Rule("R8", "PATH+SHAPE.unlock-by-conversion: HasLockedCoins(t) = !GetLockedUpCoins(t).IsZero() — the lock-up schedule itself, not LockedCoins, which is net of tracked delegations (coins that are delegated are still locked and come back on undelegation); ConvertVestingAccount replaces the vesting account by a plain account only over the edges GetVestingCoins(block time).IsZero() and !HasLockedCoins(block time)")
	if hl, ok := P.FnOK(vaPfx + "HasLockedCoins"); ok {
		okShape := false
		eachInstr(hl, func(in ssa.Instruction) {
			if ret, ok := in.(*ssa.Return); ok && len(ret.Results) == 1 {
				sl := backSlice(ret.Results[0])
				okShape = sl.HasCall(func(g CallInfo) bool { return g.Name == "GetLockedUpCoins" }) && sl.HasCall(func(g CallInfo) bool { return g.Name == "IsZero" }) &&
					!sl.HasCall(func(g CallInfo) bool { return g.Name == "LockedCoins" }) && sl.HasParam("blockTime")
			}
		})
		r.Check(okShape, "R8", vaPfx+"HasLockedCoins#definition", P.Pos(fnPos(hl)), "!GetLockedUpCoins(blockTime).IsZero()",
			"HasLockedCoins is no longer defined by the lock-up schedule alone (GetLockedUpCoins): defined through LockedCoins it is false while all still-locked coins are delegated, so the account can be converted into a plain account, undelegate, and spend coins whose lock-up has not ended")
	} else {
		r.Bad("R8", "anchor/HasLockedCoins", "", "not found")
	}
	if cv, ok := P.FnOK("(x/vesting/keeper.Keeper).ConvertVestingAccount"); ok {
		isSet := isCallMatching(func(ci CallInfo) bool { return ci.Name == "SetAccount" })
		vestZero, _ := guardPassEdges(cv, func(cond ssa.Value) (bool, bool) {
			c, ok := callNamed(cond, "IsZero")
			if !ok {
				return false, false
			}
			return true, backSlice(callArgs(c)[0]).HasCall(func(g CallInfo) bool { return g.Name == "GetVestingCoins" })
		})
		noLock, _ := guardPassEdges(cv, func(cond ssa.Value) (bool, bool) {
			_, ok := callNamed(cond, "HasLockedCoins")
			return false, ok
		})
		w1 := PathQuery{Fn: cv, Target: isSet, DelEdge: edgeSet(vestZero)}.Search()
		w2 := PathQuery{Fn: cv, Target: isSet, DelEdge: edgeSet(noLock)}.Search()
		r.Check(len(vestZero) > 0 && w1 == nil, "R8", fnID(cv)+"#nothing-unvested", P.Pos(fnPos(cv)), "the plain account is stored only where GetVestingCoins(now) is zero", "ConvertVestingAccount can store the plain account while unvested coins remain", P.witness(w1)...)
		r.Check(len(noLock) > 0 && w2 == nil, "R8", fnID(cv)+"#nothing-locked-up", P.Pos(fnPos(cv)), "the plain account is stored only where HasLockedCoins(now) is false", "ConvertVestingAccount can store the plain account while coins are still locked up", P.witness(w2)...)
	} else {
		r.Bad("R8", "anchor/ConvertVestingAccount", "", "not found")
	}
	r.Rule("R10", "FLOW.evm-commit-keeps-the-stored-account: the EVM keeper's SetAccount (what StateDB.Commit calls for every dirty address — a vesting account's address included, e.g. when code is deployed to it or value reaches it) hands the auth keeper the very account object it read with GetAccount; a new account object is built only over the edge on which none was stored. Replacing a stored ClawbackVestingAccount by a fresh EthAccount drops its schedule, funder and delegation tracking: LockedCoins is never consulted for that address again")
	if sa, ok := P.FnOK("(*x/evm/keeper.Keeper).SetAccount"); ok {
		var setCall, getCall ssa.CallInstruction
		eachCall(sa, func(ci CallInfo) {
			if ci.Name == "SetAccount" && ci.Recv != "Keeper" {
				setCall = ci.Instr
			}
			if ci.Name == "GetAccount" && getCall == nil {
				getCall = ci.Instr
			}
		})
		if setCall == nil || getCall == nil {
			r.Bad("R10", fnID(sa)+"#keeps-the-stored-account", P.Pos(fnPos(sa)), "SetAccount no longer reads the stored account and writes it back through the account keeper")
		} else {
			args := setCall.Common().Args
			acct := args[len(args)-1]
			var leaves []ssa.Value
			seen := map[ssa.Value]bool{}
			var walk func(v ssa.Value)
			walk = func(v ssa.Value) {
				v = stripValue(v)
				if seen[v] {
					return
				}
				seen[v] = true
				if ph, ok := v.(*ssa.Phi); ok {
					for _, e := range ph.Edges {
						walk(e)
					}
					return
				}
				leaves = append(leaves, v)
			}
			walk(acct)
			bad := ""
			var fresh ssa.CallInstruction
			for _, l := range leaves {
				c, isC := l.(*ssa.Call)
				switch {
				case isC && ssa.CallInstruction(c) == getCall:
				case isC && callInfo(c).Name == "NewAccountWithAddress":
					fresh = c
				default:
					bad = fmt.Sprintf("%s at %s", l.String(), P.Pos(l.Pos()))
				}
			}
			okNil := true
			if fresh != nil {
				nilEdges, _ := condEdges(sa, func(x, y ssa.Value) bool { return stripValue(x) == getCall.Value() && isNilConst(y) })
				w := PathQuery{Fn: sa, Target: func(in ssa.Instruction) bool { return in == ssa.Instruction(fresh) }, DelEdge: edgeSet(nilEdges)}.Search()
				okNil = w == nil && len(nilEdges) > 0
			}
			r.Check(bad == "" && okNil, "R10", fnID(sa)+"#keeps-the-stored-account", P.Pos(instrPos(setCall)), "writes back the account it read (a new one only where none was stored)",
				"the EVM keeper writes an account object other than the stored one ("+bad+") or builds a new one although an account exists: the stored account's type and fields (a vesting schedule) are lost at the next EVM commit touching that address")
		}
	} else {
		r.Bad("R10", "anchor/evm Keeper.SetAccount", "", "not found")
	}
	r.Rule("R12", "see C09 R11 (imported): the schedule readers behind LockedCoins / GetVestedCoins / GetUnlockedCoins add every period's length to the running time — a skipped (e.g. empty) period makes every later event count too early and the bank's lock check lets the coins go")
	r.Import("R12/C09.", []string{"R11", "R18", "R20"}, runC09)
	r.Rule("R13", "see C11 R1 (imported): Liquidate — the one operation that rewrites a vesting schedule and moves the coins out in the same step, so that the bank's lock check has nothing left to refuse — passes its guards (no unvested coins at all, amount within the locked balance) on every path to the transfer")
	r.Import("R13/C11.", []string{"R1"}, runC11)
	r.Rule("R11", "PATH.selfdestruct-spares-vesting-accounts: a clawback vesting account can carry code (it implements EthAccountI; code can be deployed to its address), so SELFDESTRUCT can reach the EVM keeper's DeleteAccount for it. RemoveAccount is reachable there only over the edge on which the stored account is NOT a vesting account (a failed assertion to vesting exported.VestingAccount / *ClawbackVestingAccount) — deleting the account deletes its lock-up and vesting schedule, its delegation tracking and its funder: coins that come back from unbonding later are free")
	if da, ok := P.FnOK("(*x/evm/keeper.Keeper).DeleteAccount"); ok {
		notVesting, _ := guardPassEdges(da, func(cond ssa.Value) (bool, bool) {
			ex, ok := cond.(*ssa.Extract)
			if !ok || ex.Index != 1 {
				return false, false
			}
			ta, ok := ex.Tuple.(*ssa.TypeAssert)
			if !ok {
				return false, false
			}
			n := namedName(deref(ta.AssertedType))
			return false, n == "VestingAccount" || n == "ClawbackVestingAccount"
		})
		isRemove := isCallMatching(func(ci CallInfo) bool { return ci.Name == "RemoveAccount" })
		w := PathQuery{Fn: da, Target: isRemove, DelEdge: edgeSet(notVesting)}.Search()
		r.Check(w == nil && len(notVesting) > 0, "R11", fnID(da)+"#spares-vesting-accounts", P.Pos(fnPos(da)), "RemoveAccount only where the account is not a vesting account",
			"the EVM keeper removes whatever account sits at a self-destructed address, a ClawbackVestingAccount with code included: its schedule disappears with it, and everything that was locked or unvested (delegated coins returning from unbonding, other denominations) is free", P.witness(w)...)
	} else {
		r.Bad("R11", "anchor/evm Keeper.DeleteAccount", "", "not found")
	}
	r.Rule("R9", "PATH.merge-reads-the-old-schedule (same rule code as C09 R9): in addGrant no store into the account's StartTime, EndTime, LockupPeriods or VestingPeriods can precede a DisjunctPeriods call — a merge that reads the already updated start re-bases the account's existing vesting events earlier for a back-dated grant, so LockedCoins falls below the coins that are really unvested")
	checkMergeBeforeUpdate(r, "R9")
}

// checkEndTimeStores (C08 R6, also evaluated as C09 R6): every store to a vesting account's EndTime depends
// on both schedules.
func checkEndTimeStores(r *Run, rule string) {
	P := r.P
	nEnd := 0
	for _, fn := range P.Funcs {
		pk := fnPkgPath(fn)
		if !strings.HasPrefix(pk, haqqMod+"/x/vesting") || isTestSupport(P, fn) || fn.Synthetic != "" || isGeneratedFile(P.FileOf(fnPos(outermost(fn)))) {
			continue
		}
		eachInstr(fn, func(in ssa.Instruction) {
			st, ok := in.(*ssa.Store)
			if !ok {
				return
			}
			sn, f, ok := fieldOfAddr(st.Addr)
			if !ok || sn != "BaseVestingAccount" || f != "EndTime" {
				return
			}
			nEnd++
			s := backSlice(st.Val)
			dep := func(word string) bool {
				return s.Any(func(v ssa.Value) bool {
					if _, f, ok := fieldOfAddr(v); ok && strings.Contains(f, word) {
						return true
					}
					if p, ok := v.(*ssa.Parameter); ok && strings.Contains(strings.ToLower(p.Name()), strings.ToLower(word)) {
						return true
					}
					if c, ok := v.(*ssa.Call); ok && strings.Contains(callInfo(c).Name, word) {
						return true
					}
					return false
				})
			}
			okBoth := dep("Lockup") && dep("Vesting")
			r.Check(okBoth, rule, fmt.Sprintf("%s#EndTime", fnID(fn)), P.Pos(instrPos(in)), "EndTime = f(lockup schedule, vesting schedule)",
				"a vesting account's EndTime is set from only one of its two schedules: ReadSchedule returns the full amount from EndTime on, so the other schedule's remaining lock would silently end early")
		})
	}
	r.Floor(rule, "EndTime stores in x/vesting", nEnd, 3)
}
