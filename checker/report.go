package main

import (
	"encoding/json"
	"fmt"
	"os"
	"path/filepath"
	"sort"
	"strings"
	"time"
)

// Obligation is one rule instance. Key never contains a line number.
type Obligation struct {
	Key     string   `json:"key"`
	Rule    string   `json:"rule"`
	Status  string   `json:"status"` // discharged | violated | known-finding
	Where   string   `json:"where,omitempty"`
	Detail  string   `json:"detail,omitempty"`
	Witness []string `json:"witness,omitempty"`
}

type KnownFinding struct {
	Property  string `json:"property"`
	Key       string `json:"key"`
	WhatFails string `json:"what_fails"`
	Witness   string `json:"witness"`
	Status    string `json:"status"` // open | fixed
	Commit    string `json:"commit,omitempty"`
}

// Run collects what one property check analysed and decided.
type Run struct {
	Property   string
	Tier       string
	P          *Prog
	Obls       []*Obligation
	oblByKey   map[string]*Obligation
	Broken     []string       // analyser failures (exit 2)
	Counts     map[string]int // what was analysed
	Rules      []string       // rule texts applied
	Declined   []string
	Notes      []string
	Selftest   []string
	start      time.Time
	VerifDir   string
	Quiet      bool
	ruleOrder  []string
	ruleTexts  map[string]string
	floorFails []string
	imp        *importCtx
}

// importCtx: while set, the rules of another property's check are evaluated under this run:
// rule id X becomes <prefix>X; rules not in only are dropped.
type importCtx struct {
	prefix string
	only   map[string]bool
	outer  *importCtx
}

// Import evaluates f (another property's rule function) under this run, keeping only the named
// rules and renaming them with prefix, so that a property whose statement includes a clause that
// a sibling property already decides is armed by the very same rule code.
func (r *Run) Import(prefix string, only []string, f func(*Run)) {
	m := map[string]bool{}
	for _, o := range only {
		m[o] = true
	}
	outer := r.imp
	if outer != nil {
		// a nested import contributes nothing unless an enclosing import lets one of its (prefixed) rules through;
		// skipping it also keeps mutually importing properties from recursing
		pass := false
		for _, o := range only {
			if _, ok := r.mapRule(prefix + o); ok {
				pass = true
			}
		}
		if !pass {
			return
		}
	}
	r.imp = &importCtx{prefix: prefix, only: m, outer: outer}
	counts := r.Counts
	r.Counts = map[string]int{}
	f(r)
	for k, v := range r.Counts {
		counts[prefix+k] = v
	}
	r.Counts = counts
	r.imp = outer
}

// mapRule: the rule id under the current (possibly nested) import, ok=false when the rule is dropped.
func (r *Run) mapRule(id string) (string, bool) {
	for c := r.imp; c != nil; c = c.outer {
		if !c.only[id] {
			return "", false
		}
		id = c.prefix + id
	}
	return id, true
}

func NewRun(prop, tier string, P *Prog, verifDir string) *Run {
	return &Run{Property: prop, Tier: tier, P: P, oblByKey: map[string]*Obligation{}, Counts: map[string]int{},
		start: time.Now(), VerifDir: verifDir, ruleTexts: map[string]string{}}
}

// Rule registers the text of a rule (shown in evidence).
func (r *Run) Rule(id, text string) {
	id, ok := r.mapRule(id)
	if !ok {
		return
	}
	if _, ok := r.ruleTexts[id]; !ok {
		r.ruleOrder = append(r.ruleOrder, id)
	}
	r.ruleTexts[id] = text
}

func (r *Run) key(rule, inst string) string { return r.Property + "." + rule + "@" + inst }

func (r *Run) add(rule, inst, status, where, detail string, witness []string) *Obligation {
	rule, ok := r.mapRule(rule)
	if !ok {
		return nil
	}
	k := r.key(rule, inst)
	if o, ok := r.oblByKey[k]; ok {
		// same instance reported twice: violated wins, details are appended
		if status == "violated" && o.Status != "violated" {
			o.Status, o.Where, o.Detail, o.Witness = status, where, detail, witness
		} else if status == "violated" {
			o.Detail += " | " + detail
		}
		return o
	}
	o := &Obligation{Key: k, Rule: rule, Status: status, Where: where, Detail: detail, Witness: witness}
	r.oblByKey[k] = o
	r.Obls = append(r.Obls, o)
	return o
}

func (r *Run) OK(rule, inst, where, detail string) { r.add(rule, inst, "discharged", where, detail, nil) }
func (r *Run) Bad(rule, inst, where, detail string, witness ...string) {
	r.add(rule, inst, "violated", where, detail, witness)
}

// Check records OK or Bad depending on cond.
func (r *Run) Check(cond bool, rule, inst, where, okDetail, badDetail string, witness ...string) bool {
	if cond {
		r.OK(rule, inst, where, okDetail)
	} else {
		r.Bad(rule, inst, where, badDetail, witness...)
	}
	return cond
}

// Fail marks the analyser itself as broken (exit 2): unresolved anchors that are not
// expressible as a violated instance, silent positive controls, premise changes.
func (r *Run) Fail(format string, a ...any) { r.Broken = append(r.Broken, fmt.Sprintf(format, a...)) }

func (r *Run) Count(name string, n int) { r.Counts[name] += n }

// Floor: a rule that matches fewer instances than were confirmed by hand is a violated
// obligation of its own (a rule matching zero sites would pass vacuously forever; and a
// deleted anchor is how a removed mechanism shows up).
func (r *Run) Floor(rule, what string, got, min int) {
	if _, ok := r.mapRule(rule); !ok {
		return
	}
	r.Counts[what] = got
	if got < min {
		r.Bad(rule, "floor/"+what, "", fmt.Sprintf("rule matched %d instance(s) of %q; %d were confirmed on the reference tree — an anchored mechanism was removed or renamed", got, what, min))
	}
}

func (r *Run) Note(format string, a ...any) { r.Notes = append(r.Notes, fmt.Sprintf(format, a...)) }

func loadKnown(verifDir string) ([]KnownFinding, error) {
	b, err := os.ReadFile(filepath.Join(verifDir, "known_findings.json"))
	if err != nil {
		if os.IsNotExist(err) {
			return nil, nil
		}
		return nil, err
	}
	var k struct {
		Findings []KnownFinding `json:"findings"`
	}
	if err := json.Unmarshal(b, &k); err != nil {
		return nil, err
	}
	return k.Findings, nil
}

// Finish prints the verdict lines, writes evidence and violation files, returns the exit code.
func (r *Run) Finish(level, explanation string, assumptions []string) int {
	known, err := loadKnown(r.VerifDir)
	if err != nil {
		r.Fail("known_findings.json unreadable: %v", err)
	}
	openKnown := map[string]KnownFinding{}
	for _, k := range known {
		if k.Property == r.Property && k.Status == "open" {
			openKnown[k.Key] = k
		}
	}
	sort.SliceStable(r.Obls, func(i, j int) bool { return r.Obls[i].Key < r.Obls[j].Key })
	evDir := filepath.Join(r.VerifDir, "evidence")
	vioDir := filepath.Join(evDir, "violations")
	os.MkdirAll(vioDir, 0o755)
	// remove stale violation files of this property
	if old, _ := filepath.Glob(filepath.Join(vioDir, r.Property+"-*.json")); old != nil {
		for _, f := range old {
			os.Remove(f)
		}
	}
	nViol, nKnown, nOK := 0, 0, 0
	var lines []string
	for _, o := range r.Obls {
		switch o.Status {
		case "violated":
			if k, ok := openKnown[o.Key]; ok {
				o.Status = "known-finding"
				nKnown++
				lines = append(lines, fmt.Sprintf("KNOWN-FINDING: property=%s %s [%s] %s", r.Property, k.WhatFails, o.Key, o.Where))
				continue
			}
			nViol++
			path := filepath.Join(vioDir, fmt.Sprintf("%s-%d.json", r.Property, nViol))
			b, _ := json.MarshalIndent(o, "", " ")
			os.WriteFile(path, b, 0o644)
			lines = append(lines, fmt.Sprintf("  violated %s\n    at %s\n    %s", o.Key, o.Where, o.Detail))
			for _, w := range o.Witness {
				lines = append(lines, "      "+w)
			}
			lines = append(lines, fmt.Sprintf("VIOLATION property=%s replay=%s", r.Property, path))
		default:
			nOK++
		}
	}
	// a known finding that is listed open but no longer violated is only a note
	for k := range openKnown {
		if o, ok := r.oblByKey[k]; !ok || o.Status == "discharged" {
			r.Note("known finding %s is listed open but the obligation is not violated on this tree", k)
		}
	}
	wall := time.Since(r.start).Seconds()
	if !r.Quiet {
		fmt.Printf("== %s tier=%s: %d obligations: %d discharged, %d known-finding, %d violated; analyser failures: %d (%.1fs)\n",
			r.Property, r.Tier, len(r.Obls), nOK, nKnown, nViol, len(r.Broken), wall)
		var cn []string
		for k := range r.Counts {
			cn = append(cn, k)
		}
		sort.Strings(cn)
		for _, k := range cn {
			fmt.Printf("   analysed %-46s %d\n", k, r.Counts[k])
		}
		for _, l := range lines {
			fmt.Println(l)
		}
		for _, n := range r.Notes {
			fmt.Println("   note:", n)
		}
		for _, s := range r.Selftest {
			fmt.Println("   selftest:", s)
		}
		for _, b := range r.Broken {
			fmt.Println("ANALYSER-FAILURE:", b)
		}
	}
	// evidence
	var samples []any
	for i, o := range r.Obls {
		if i < 400 {
			samples = append(samples, o)
		}
	}
	var rules []map[string]string
	for _, id := range r.ruleOrder {
		rules = append(rules, map[string]string{"id": id, "text": r.ruleTexts[id]})
	}
	distinct := map[string]bool{}
	for _, o := range r.Obls {
		distinct[o.Key] = true
	}
	ev := map[string]any{
		"property_id": r.Property,
		"tier":        r.Tier,
		"seed":        0,
		"level":       level,
		"wall_s":      wall,
		"violations":  nViol,
		"assumptions": assumptions,
		"coverage": map[string]any{
			"explanation":         explanation,
			"obligations":         len(r.Obls),
			"discharged":          nOK,
			"known_findings":      nKnown,
			"violated":            nViol,
			"evaluations":         len(r.Obls),
			"distinct_nontrivial": len(distinct),
			"rule":                "one obligation per (rule, resolved program construct); distinct = distinct obligation keys; every obligation is evaluated on the SSA/type-checked program of /repo's working tree",
			"analysed":            r.Counts,
			"rules":               rules,
			"declined_clauses":    r.Declined,
			"samples":             samples,
			"selftest":            r.Selftest,
			"analyser_failures":   r.Broken,
			"notes":               r.Notes,
			"checker_cmd":         strings.Join(os.Args, " "),
			"exhaustive":          true,
			"build":               map[string]any{"env": r.P.BuildEnv, "tags": r.P.Tags, "packages": len(r.P.Pkgs), "functions": len(r.P.Funcs)},
		},
	}
	b, _ := json.MarshalIndent(ev, "", " ")
	if err := os.WriteFile(filepath.Join(evDir, r.Property+".json"), b, 0o644); err != nil {
		fmt.Println("ANALYSER-FAILURE: cannot write evidence:", err)
		return 2
	}
	if len(r.Broken) > 0 {
		return 2
	}
	if nViol > 0 {
		return 1
	}
	return 0
}
