package main

import (
	"go/types"
	"sort"
	"strings"

	"golang.org/x/tools/go/ssa"
)

// ---------- Haqq-internal call graph (mode H) ----------
//
// Edges: static callees; interface invokes resolved to every Haqq concrete type implementing
// the interface; function values (named functions, closures, bound methods) referenced by a
// reachable function are reachable (they may be called by whoever receives them).
// Callbacks from dependencies into Haqq are covered by making every callback target a root
// (roots are found by interface implementation / signature, see consensusRoots).

type Graph struct {
	P        *Prog
	implMemo map[*types.Func][]*ssa.Function
	concrete []types.Type // all Haqq named types and pointers to them
}

func NewGraph(P *Prog) *Graph {
	g := &Graph{P: P, implMemo: map[*types.Func][]*ssa.Function{}}
	for _, p := range P.Pkgs {
		sc := p.Types.Scope()
		for _, n := range sc.Names() {
			tn, ok := sc.Lookup(n).(*types.TypeName)
			if !ok || tn.IsAlias() {
				continue
			}
			nt, ok := tn.Type().(*types.Named)
			if !ok || nt.TypeParams().Len() > 0 {
				continue
			}
			if _, isIface := nt.Underlying().(*types.Interface); isIface {
				continue
			}
			g.concrete = append(g.concrete, nt, types.NewPointer(nt))
		}
	}
	return g
}

// Implementers of an interface method among Haqq concrete types.
func (g *Graph) Implementers(m *types.Func) []*ssa.Function {
	if fs, ok := g.implMemo[m]; ok {
		return fs
	}
	var out []*ssa.Function
	sig := m.Type().(*types.Signature)
	var iface *types.Interface
	if sig.Recv() != nil {
		iface, _ = sig.Recv().Type().Underlying().(*types.Interface)
	}
	seen := map[*ssa.Function]bool{}
	for _, t := range g.concrete {
		if iface != nil && !types.Implements(t, iface) {
			continue
		}
		ms := g.P.SSA.MethodSets.MethodSet(t)
		sel := ms.Lookup(m.Pkg(), m.Name())
		if sel == nil {
			continue
		}
		if iface == nil && !types.Identical(sel.Type().(*types.Signature).Params(), sig.Params()) {
			continue
		}
		fn := g.P.SSA.MethodValue(sel)
		if fn == nil || seen[fn] {
			continue
		}
		seen[fn] = true
		out = append(out, fn)
	}
	g.implMemo[m] = out
	return out
}

// Callees of one function: (callee, call-site instruction).
type callEdge struct {
	Callee *ssa.Function
	Site   ssa.Instruction
	Kind   string // static | invoke | funcvalue
}

func (g *Graph) Out(fn *ssa.Function) []callEdge {
	var out []callEdge
	if fn.Blocks == nil {
		return nil
	}
	for _, b := range fn.Blocks {
		for _, in := range b.Instrs {
			if c, ok := in.(ssa.CallInstruction); ok {
				cc := c.Common()
				if cc.IsInvoke() {
					for _, impl := range g.Implementers(cc.Method) {
						out = append(out, callEdge{impl, in, "invoke"})
					}
				} else if sc := cc.StaticCallee(); sc != nil {
					out = append(out, callEdge{sc, in, "static"})
				}
			}
			// function values referenced as operands
			for _, op := range in.Operands(nil) {
				if op == nil || *op == nil {
					continue
				}
				switch v := (*op).(type) {
				case *ssa.Function:
					out = append(out, callEdge{v, in, "funcvalue"})
				case *ssa.MakeClosure:
					if f, ok := v.Fn.(*ssa.Function); ok {
						out = append(out, callEdge{f, in, "funcvalue"})
					}
				}
			}
			if mc, ok := in.(*ssa.MakeClosure); ok {
				if f, ok := mc.Fn.(*ssa.Function); ok {
					out = append(out, callEdge{f, in, "funcvalue"})
				}
			}
		}
	}
	return out
}

type reachNode struct {
	Fn     *ssa.Function
	Parent *ssa.Function
	Site   ssa.Instruction
	Root   string
}

type ReachSet struct {
	g     *Graph
	Nodes map[*ssa.Function]*reachNode
}

func (g *Graph) Reach(roots map[*ssa.Function]string, stop func(*ssa.Function) bool) *ReachSet {
	rs := &ReachSet{g: g, Nodes: map[*ssa.Function]*reachNode{}}
	var order []*ssa.Function
	for f := range roots {
		order = append(order, f)
	}
	sort.Slice(order, func(i, j int) bool { return fnID(order[i]) < fnID(order[j]) })
	var work []*ssa.Function
	for _, f := range order {
		rs.Nodes[f] = &reachNode{Fn: f, Root: roots[f]}
		work = append(work, f)
	}
	for len(work) > 0 {
		f := work[0]
		work = work[1:]
		if stop != nil && stop(f) {
			continue
		}
		// thunks/wrappers without bodies in Haqq still carry a synthetic body; others (deps) have none
		for _, e := range g.Out(f) {
			if _, ok := rs.Nodes[e.Callee]; ok {
				continue
			}
			rs.Nodes[e.Callee] = &reachNode{Fn: e.Callee, Parent: f, Site: e.Site}
			work = append(work, e.Callee)
		}
	}
	return rs
}

func (rs *ReachSet) Has(fn *ssa.Function) bool { _, ok := rs.Nodes[fn]; return ok }

// Chain returns root → ... → fn as report lines.
func (rs *ReachSet) Chain(fn *ssa.Function) []string {
	var rev []string
	for n := rs.Nodes[fn]; n != nil; n = rs.Nodes[n.Parent] {
		s := fnID(n.Fn)
		if n.Site != nil {
			s += "  (called at " + rs.g.P.Pos(instrPos(n.Site)) + ")"
		}
		if n.Root != "" {
			s += "  [root: " + n.Root + "]"
		}
		rev = append(rev, s)
		if n.Parent == nil {
			break
		}
	}
	for i, j := 0, len(rev)-1; i < j; i, j = i+1, j-1 {
		rev[i], rev[j] = rev[j], rev[i]
	}
	return rev
}

// HaqqFuncs returns reachable functions with bodies in Haqq packages, sorted.
func (rs *ReachSet) HaqqFuncs() []*ssa.Function {
	var out []*ssa.Function
	for f := range rs.Nodes {
		if f.Blocks != nil && isHaqqPath(fnPkgPath(f)) {
			out = append(out, f)
		}
	}
	sort.Slice(out, func(i, j int) bool { return fnID(out[i]) < fnID(out[j]) })
	return out
}

// ---------- consensus roots ----------

// rootInterface: dependency (or Haqq) interfaces whose Haqq implementers are entered by the
// consensus engine / baseapp / geth interpreter / bank keeper.
type ifaceSpec struct {
	Pkg, Name string
	Why       string
}

var rootIfaces = []ifaceSpec{
	{"github.com/cosmos/cosmos-sdk/types/module", "BeginBlockAppModule", "ABCI BeginBlock"},
	{"github.com/cosmos/cosmos-sdk/types/module", "EndBlockAppModule", "ABCI EndBlock"},
	{"github.com/cosmos/cosmos-sdk/types/module", "HasGenesis", "InitChain"},
	{"github.com/cosmos/cosmos-sdk/types", "AnteDecorator", "ante handler"},
	{"github.com/cosmos/cosmos-sdk/types", "PostDecorator", "post handler"},
	{"github.com/cosmos/cosmos-sdk/types", "Msg", "message validation by baseapp"},
	{"github.com/cosmos/cosmos-sdk/types", "Tx", "tx accessors used by ante"},
	{"github.com/cosmos/cosmos-sdk/x/authz", "Authorization", "authz Accept"},
	{"github.com/cosmos/cosmos-sdk/x/auth/types", "AccountI", "account methods used by auth/bank"},
	{"github.com/cosmos/cosmos-sdk/x/auth/vesting/exported", "VestingAccount", "bank keeper locked-coins check"},
	{"github.com/cosmos/cosmos-sdk/crypto/types", "PubKey", "signature verification"},
	{"github.com/cosmos/cosmos-sdk/codec/types", "UnpackInterfacesMessage", "tx decoding"},
	{"github.com/ethereum/go-ethereum/core/vm", "PrecompiledContract", "EVM precompile dispatch"},
	{"github.com/ethereum/go-ethereum/core/vm", "StateDB", "EVM interpreter state access"},
	{"github.com/ethereum/go-ethereum/core/vm", "EVMLogger", "tracer callbacks"},
	{"github.com/cosmos/ibc-go/v7/modules/core/05-port/types", "IBCModule", "IBC callbacks"},
	{"github.com/cosmos/ibc-go/v7/modules/core/05-port/types", "Middleware", "IBC callbacks"},
	{"github.com/cosmos/ibc-go/v7/modules/core/05-port/types", "ICS4Wrapper", "IBC send path"},
	{"github.com/cosmos/cosmos-sdk/x/staking/types", "StakingHooks", "staking hooks"},
	{"github.com/cosmos/cosmos-sdk/x/gov/types", "GovHooks", "gov hooks"},
	{"github.com/cosmos/cosmos-sdk/x/staking/types", "BankKeeper", "bank keeper handed to staking"},
	{"github.com/cosmos/cosmos-sdk/x/gov/types", "BankKeeper", "bank keeper handed to gov"},
	{"github.com/cosmos/cosmos-sdk/x/gov/types/v1beta1", "Content", "legacy proposal content"},
	{"github.com/cosmos/ibc-go/v7/modules/apps/transfer/types", "BankKeeper", "bank keeper handed to transfer"},
	{haqqMod + "/x/evm/types", "EvmHooks", "EVM post-tx hooks"},
	{haqqMod + "/x/evm/statedb", "Keeper", "StateDB backing keeper"},
	{haqqMod + "/x/epochs/types", "EpochHooks", "epoch hooks"},
	{haqqMod + "/x/evm/types", "TxData", "tx data accessors"},
}

// func-typed callbacks registered at construction and called during block execution, by named type.
var rootFuncTypes = []ifaceSpec{
	{"github.com/cosmos/cosmos-sdk/types", "AnteHandler", "ante handler closure"},
	{"github.com/cosmos/cosmos-sdk/types", "PostHandler", "post handler closure"},
	{"github.com/cosmos/cosmos-sdk/types", "Invariant", "crisis invariant"},
	{"github.com/cosmos/cosmos-sdk/types", "InitChainer", "InitChain"},
	{"github.com/cosmos/cosmos-sdk/types", "BeginBlocker", "BeginBlock"},
	{"github.com/cosmos/cosmos-sdk/types", "EndBlocker", "EndBlock"},
	{"github.com/cosmos/cosmos-sdk/x/upgrade/types", "UpgradeHandler", "upgrade handler"},
	{"github.com/cosmos/cosmos-sdk/x/gov/types/v1beta1", "Handler", "gov proposal handler"},
	{"github.com/cosmos/cosmos-sdk/x/auth/ante", "TxFeeChecker", "fee checker"},
	{"github.com/cosmos/cosmos-sdk/x/auth/ante", "SignatureVerificationGasConsumer", "sig gas consumer"},
	{"github.com/cosmos/cosmos-sdk/types/module", "MigrationHandler", "store migration"},
	{"github.com/ethereum/go-ethereum/core/vm", "GetHashFunc", "BLOCKHASH"},
	{"github.com/ethereum/go-ethereum/core/vm", "CanTransferFunc", "EVM transfer"},
	{"github.com/ethereum/go-ethereum/core/vm", "TransferFunc", "EVM transfer"},
}

var rootMethods = []struct{ ID, Why string }{
	{"(*app.Haqq).BeginBlocker", "ABCI"},
	{"(*app.Haqq).EndBlocker", "ABCI"},
	{"(*app.Haqq).InitChainer", "ABCI"},
	{"(*app.Haqq).DeliverTx", "ABCI"},
	{"(*app.Haqq).ScheduleForkUpgrade", "BeginBlocker"},
}

type Scopes struct {
	G     *Graph
	S     *ReachSet // consensus scope
	K     *ReachSet // construction scope (NewHaqq + package inits)
	Roots map[*ssa.Function]string
}

func (P *Prog) lookupIface(pkg, name string) *types.Interface {
	tn := P.LookupType(pkg, name)
	if tn == nil {
		return nil
	}
	i, _ := tn.Type().Underlying().(*types.Interface)
	return i
}

func BuildScopes(r *Run) *Scopes {
	P := r.P
	g := NewGraph(P)
	roots := map[*ssa.Function]string{}
	addRoot := func(fn *ssa.Function, why string) {
		if fn == nil || fn.Blocks == nil || !isHaqqPath(fnPkgPath(fn)) {
			return
		}
		if isTestSupport(P, fn) {
			return
		}
		if _, ok := roots[fn]; !ok {
			roots[fn] = why
		}
	}
	// 1. interface implementers
	ifaces := []struct {
		I   *types.Interface
		Why string
	}{}
	for _, s := range rootIfaces {
		I := P.lookupIface(s.Pkg, s.Name)
		if I == nil {
			r.Note("root interface %s.%s not present in this build (skipped)", s.Pkg, s.Name)
			continue
		}
		ifaces = append(ifaces, struct {
			I   *types.Interface
			Why string
		}{I, s.Name + ": " + s.Why})
	}
	// every interface named MsgServer / QueryServer is NOT a root for queries; MsgServer is.
	for _, sp := range P.SSA.AllPackages() {
		if tn, ok := sp.Pkg.Scope().Lookup("MsgServer").(*types.TypeName); ok {
			if I, ok := tn.Type().Underlying().(*types.Interface); ok {
				ifaces = append(ifaces, struct {
					I   *types.Interface
					Why string
				}{I, "MsgServer of " + strings.TrimPrefix(sp.Pkg.Path(), haqqMod+"/")})
			}
		}
	}
	for _, t := range g.concrete {
		for _, is := range ifaces {
			if is.I.NumMethods() == 0 || !types.Implements(t, is.I) {
				continue
			}
			ms := P.SSA.MethodSets.MethodSet(t)
			for i := 0; i < is.I.NumMethods(); i++ {
				m := is.I.Method(i)
				if sel := ms.Lookup(m.Pkg(), m.Name()); sel != nil {
					addRoot(P.SSA.MethodValue(sel), is.Why)
				}
			}
		}
	}
	// 2. functions / closures convertible to a root func type
	var ftypes []struct {
		T   types.Type
		Why string
	}
	for _, s := range rootFuncTypes {
		tn := P.LookupType(s.Pkg, s.Name)
		if tn == nil {
			continue
		}
		ftypes = append(ftypes, struct {
			T   types.Type
			Why string
		}{tn.Type().Underlying(), s.Name + ": " + s.Why})
	}
	for _, fn := range P.Funcs {
		if fn.Signature.Recv() != nil && fn.Parent() == nil {
			// methods are covered through interfaces, except method values; skip
		}
		for _, ft := range ftypes {
			if types.Identical(fn.Signature, ft.T) || sameParamsResults(fn.Signature, ft.T) {
				// only anonymous functions and package-level functions (not methods unless bound)
				if fn.Parent() != nil || fn.Signature.Recv() == nil {
					addRoot(fn, ft.Why)
				}
			}
		}
	}
	// 3. named methods
	for _, m := range rootMethods {
		if fn, ok := P.FnOK(m.ID); ok {
			addRoot(fn, m.Why)
		} else {
			r.Bad("REACH", "root/"+m.ID, "", "consensus entry point "+m.ID+" not found")
		}
	}
	// Migrator methods
	for _, fn := range P.Funcs {
		if fn.Signature.Recv() != nil && namedName(fn.Signature.Recv().Type()) == "Migrator" && strings.HasPrefix(fn.Name(), "Migrate") {
			addRoot(fn, "store migration")
		}
	}
	sc := &Scopes{G: g, Roots: roots}
	sc.S = g.Reach(roots, func(f *ssa.Function) bool { return isTestSupport(P, f) })
	kroots := map[*ssa.Function]string{}
	if fn, ok := P.FnOK("app.NewHaqq"); ok {
		kroots[fn] = "node construction"
	}
	for _, fn := range P.Funcs {
		if (fn.Name() == "init" || strings.HasPrefix(fn.Name(), "init#")) && fn.Parent() == nil && !isTestSupport(P, fn) {
			rel := strings.TrimPrefix(fnPkgPath(fn), haqqMod+"/")
			if strings.HasPrefix(rel, "cmd/") || strings.HasPrefix(rel, "client") || strings.HasPrefix(rel, "rpc") || strings.HasPrefix(rel, "server") {
				continue
			}
			kroots[fn] = "package init"
		}
	}
	sc.K = g.Reach(kroots, func(f *ssa.Function) bool { return isTestSupport(P, f) })
	return sc
}

func sameParamsResults(sig *types.Signature, t types.Type) bool {
	s2, ok := t.(*types.Signature)
	if !ok {
		return false
	}
	return types.Identical(sig.Params(), s2.Params()) && types.Identical(sig.Results(), s2.Results()) && sig.Variadic() == s2.Variadic()
}
