package main

import (
	"fmt"
	"go/token"
	"go/types"
	"os"
	"sort"
	"strings"

	"golang.org/x/tools/go/packages"
	"golang.org/x/tools/go/ssa"
	"golang.org/x/tools/go/ssa/ssautil"
)

const haqqMod = "github.com/haqq-network/haqq"

// Prog is the resolved program of /repo's current working tree (mode H of DESIGN §2.1):
// Haqq packages with syntax, types and SSA bodies; dependencies as type information only.
type Prog struct {
	RepoDir  string
	Fset     *token.FileSet
	Pkgs     []*packages.Package // Haqq packages, sorted by path
	PkgBy    map[string]*packages.Package
	SSA      *ssa.Program
	SSAPkg   map[string]*ssa.Package
	Funcs    []*ssa.Function // every Haqq function with a body (incl. anonymous), non-generated and generated
	funcByID map[string]*ssa.Function
	BuildEnv []string
	Tags     string
}

func isHaqqPath(p string) bool {
	return p == haqqMod || strings.HasPrefix(p, haqqMod+"/")
}

// LoadRepo loads ./... of dir. Any load or type error is fatal for the analyser
// (exit 2), never a verdict.
func LoadRepo(dir string, extraEnv []string, tags string) (*Prog, error) {
	env := append(os.Environ(),
		"GOFLAGS=-mod=mod", "GOPROXY=off", "GOSUMDB=off", "GOTOOLCHAIN=local", "GOWORK=off")
	env = append(env, extraEnv...)
	cfg := &packages.Config{
		Mode:  packages.LoadSyntax,
		Dir:   dir,
		Env:   env,
		Tests: false,
	}
	if tags != "" {
		cfg.BuildFlags = []string{"-tags=" + tags}
	}
	pkgs, err := packages.Load(cfg, "./...")
	if err != nil {
		return nil, fmt.Errorf("packages.Load: %w", err)
	}
	if len(pkgs) == 0 {
		return nil, fmt.Errorf("packages.Load: zero packages loaded from %s", dir)
	}
	var errs []string
	for _, p := range pkgs {
		for _, e := range p.Errors {
			errs = append(errs, p.PkgPath+": "+e.Error())
		}
		if p.Types == nil || p.TypesInfo == nil || p.IllTyped {
			errs = append(errs, p.PkgPath+": ill-typed or missing type information")
		}
	}
	if len(errs) > 0 {
		if len(errs) > 12 {
			errs = append(errs[:12], fmt.Sprintf("... and %d more", len(errs)-12))
		}
		return nil, fmt.Errorf("type-check of %s failed:\n  %s", dir, strings.Join(errs, "\n  "))
	}
	sort.Slice(pkgs, func(i, j int) bool { return pkgs[i].PkgPath < pkgs[j].PkgPath })
	P := &Prog{RepoDir: dir, Pkgs: pkgs, PkgBy: map[string]*packages.Package{}, SSAPkg: map[string]*ssa.Package{},
		funcByID: map[string]*ssa.Function{}, BuildEnv: extraEnv, Tags: tags}
	P.Fset = pkgs[0].Fset
	prog, spkgs := ssautil.Packages(pkgs, ssa.InstantiateGenerics)
	for i, p := range pkgs {
		P.PkgBy[p.PkgPath] = p
		if spkgs[i] == nil {
			return nil, fmt.Errorf("no SSA package for %s", p.PkgPath)
		}
		P.SSAPkg[p.PkgPath] = spkgs[i]
	}
	prog.Build()
	P.SSA = prog
	// enumerate all functions with bodies that belong to Haqq packages
	for fn := range ssautil.AllFunctions(prog) {
		if fn.Blocks == nil {
			continue
		}
		pk := fnPkgPath(fn)
		if !isHaqqPath(pk) {
			continue
		}
		P.Funcs = append(P.Funcs, fn)
	}
	sort.Slice(P.Funcs, func(i, j int) bool { return fnID(P.Funcs[i]) < fnID(P.Funcs[j]) })
	for _, fn := range P.Funcs {
		P.funcByID[fnID(fn)] = fn
	}
	return P, nil
}

func fnPkgPath(fn *ssa.Function) string {
	for f := fn; f != nil; f = f.Parent() {
		if f.Pkg != nil {
			return f.Pkg.Pkg.Path()
		}
		if o := f.Object(); o != nil && o.Pkg() != nil {
			return o.Pkg().Path()
		}
		if f.Origin() != nil && f.Origin().Pkg != nil {
			return f.Origin().Pkg.Pkg.Path()
		}
	}
	return ""
}

// fnID is the stable identity used in obligation keys: "<pkg-rel-path>.<Recv>.<name>" with
// anonymous functions as parent$N. Never contains a line number.
func fnID(fn *ssa.Function) string {
	if fn == nil {
		return "<nil>"
	}
	s := fn.String() // e.g. (*github.com/haqq-network/haqq/x/evm/keeper.Keeper).SetBalance
	s = strings.ReplaceAll(s, haqqMod+"/", "")
	s = strings.ReplaceAll(s, haqqMod, "haqq")
	return s
}

// Fn returns the SSA function for an ID as printed by fnID; nil if absent.
func (P *Prog) Fn(id string) *ssa.Function { return P.funcByID[id] }

// MustFn resolves an anchor; a missing anchor is reported by the caller as an
// unresolved instance (which fails the check), so return nil rather than panic.
func (P *Prog) FnOK(id string) (*ssa.Function, bool) {
	f, ok := P.funcByID[id]
	return f, ok
}

func (P *Prog) Pos(p token.Pos) string {
	if !p.IsValid() {
		return "-"
	}
	pos := P.Fset.Position(p)
	f := strings.TrimPrefix(pos.Filename, P.RepoDir+"/")
	return fmt.Sprintf("%s:%d", f, pos.Line)
}

func (P *Prog) FileOf(p token.Pos) string {
	if !p.IsValid() {
		return ""
	}
	return strings.TrimPrefix(P.Fset.Position(p).Filename, P.RepoDir+"/")
}

func isGeneratedFile(name string) bool {
	return strings.HasSuffix(name, ".pb.go") || strings.HasSuffix(name, ".pb.gw.go")
}

// fnPos gives a position for a function even when synthetic.
func fnPos(fn *ssa.Function) token.Pos {
	if fn.Pos().IsValid() {
		return fn.Pos()
	}
	if fn.Syntax() != nil {
		return fn.Syntax().Pos()
	}
	return token.NoPos
}

// LookupType finds a named type in any loaded package (Haqq or dependency) by import path.
func (P *Prog) LookupType(pkgPath, name string) *types.TypeName {
	if p := P.SSA.ImportedPackage(pkgPath); p != nil {
		if tn, ok := p.Pkg.Scope().Lookup(name).(*types.TypeName); ok {
			return tn
		}
	}
	for _, sp := range P.SSA.AllPackages() {
		if sp.Pkg.Path() == pkgPath {
			if tn, ok := sp.Pkg.Scope().Lookup(name).(*types.TypeName); ok {
				return tn
			}
		}
	}
	return nil
}

func (P *Prog) LookupObj(pkgPath, name string) types.Object {
	for _, sp := range P.SSA.AllPackages() {
		if sp.Pkg.Path() == pkgPath {
			return sp.Pkg.Scope().Lookup(name)
		}
	}
	return nil
}
