package main

import (
	"fmt"
	"go/token"
	"go/types"
	"strings"

	"golang.org/x/tools/go/ssa"
)

func init() {
	register(&propDef{
		ID:  "C03",
		Run: runC03,
		Explanation: "Static analysis of the authorisation path: (R1) partial order of the signature, account, fee and sequence decorators on all three routes; (R2) the eth signature decorator recovers every message's sender with a signer built from the keeper's chain id, rejects unprotected txs unless the parameter allows them, and records the recovered sender; " +
			"(R3) the nonce must equal the account sequence before it is incremented and stored; (R4) the EIP-712 decorator reaches next only through VerifySignature and the sequence comparison, and VerifySignature returns nil only after chain-id, public-key, fee-payer and secp256k1 checks over a hash that depends on chain id, account number and sequence; " +
			"(R5) MsgEthereumTx.From is written only by the signature verifier (and client-side helpers) and must arrive empty; (R6) ethsecp256k1.VerifySignature is true only through crypto.VerifySignature over the key, the Keccak hash of the payload and the signature.",
		Assumptions: []string{"go-ethereum signers/secp256k1 and apitypes.TypedDataAndHash are correct", "SDK SigVerificationDecorator / IncrementSequenceDecorator on the Cosmos route are correct"},
		Declined:    []string{"that the signed hash covers every transaction field (EIP-712 / RLP encoding correctness)", "signature malleability"},
	})
}

// loopHead: first instruction of a block that dominates `from` and has more than one predecessor (a loop header).
func reentersLoop(from *ssa.BasicBlock) func(ssa.Instruction) bool {
	return func(in ssa.Instruction) bool {
		b := in.Block()
		return in == b.Instrs[0] && b != from && len(b.Preds) > 1 && dominates(b, from)
	}
}

func runC03(r *Run) {
	P := r.P
	r.Rule("R1", "TABLE.chain-order: eth: SetUpContext < ValidateBasic < SigVerification < {AccountVerification, CanTransfer, VestingTransaction, GasConsume} < IncrementSenderSequence; Cosmos/EIP-712: RejectMessages first, SetPubKey < ValidateSigCount < SigGasConsume < (SigVerification | LegacyEip712SigVerification) < IncrementSequence")
	r.Rule("R2", "PATH.sigverify: in EthSigVerificationDecorator, once a message is asserted, next or the next iteration is reachable only through an error-checked signer.Sender(tx) whose signer = MakeSigner(config(evmKeeper.ChainID())); tx.Protected() must hold unless GetAllowUnprotectedTxs(); From is stored from the recovered sender")
	r.Rule("R3", "PATH.nonce: in EthIncrementSenderSequenceDecorator SetSequence is reachable only where txData.GetNonce() == acc.GetSequence() for the account of msg.GetFrom(); its argument is that sequence + 1; SetAccount follows before next / the next message")
	r.Rule("R4", "PATH.eip712: LegacyEip712SigVerificationDecorator reaches next only through error-checked VerifySignature (bypass IsReCheckTx, simulate) and the sig.Sequence == acc.GetSequence() comparison; signer data comes from ctx.ChainID(), account number and sequence; VerifySignature returns nil only after TypedDataChainID == chain id, pubKey.Equals(recovered), feePayer equality and secp256k1.VerifySignature over a hash depending on StdSignBytes(signerData…)")
	r.Rule("R5", "OWN.From: stores to MsgEthereumTx.From only in {EthSigVerificationDecorator.AnteHandle, MsgEthereumTx.GetSender, MsgEthereumTx.BuildTx} and generated/unmarshal code; EthValidateBasicDecorator reaches next only where From is empty (bypass IsReCheckTx)")
	r.Rule("R6", "FLOW.ethsecp256k1: PubKey.VerifySignature returns true only through crypto.VerifySignature(pubKey.Key, Keccak256Hash(payload), sig)")

	chains := anteChains(r)
	// ---------- R1 ----------
	if c := chains["newEVMAnteHandler"]; c != nil {
		cn := "newEVMAnteHandler"
		requireOrder(r, "R1", cn, c, "EthSetupContextDecorator", "EthValidateBasicDecorator")
		requireOrder(r, "R1", cn, c, "EthValidateBasicDecorator", "EthSigVerificationDecorator")
		for _, d := range []string{"EthAccountVerificationDecorator", "CanTransferDecorator", "EthVestingTransactionDecorator", "EthGasConsumeDecorator"} {
			requireOrder(r, "R1", cn, c, "EthSigVerificationDecorator", d)
			requireOrder(r, "R1", cn, c, d, "EthIncrementSenderSequenceDecorator")
		}
	}
	for cn, sv := range map[string]string{"newCosmosAnteHandler": "SigVerificationDecorator", "newLegacyCosmosAnteHandlerEip712": "LegacyEip712SigVerificationDecorator"} {
		c := chains[cn]
		if c == nil {
			continue
		}
		requireOrder(r, "R1", cn, c, "SetPubKeyDecorator", "ValidateSigCountDecorator")
		requireOrder(r, "R1", cn, c, "ValidateSigCountDecorator", "SigGasConsumeDecorator")
		requireOrder(r, "R1", cn, c, "SigGasConsumeDecorator", sv)
		requireOrder(r, "R1", cn, c, sv, "IncrementSequenceDecorator")
		requireOrder(r, "R1", cn, c, "RejectMessagesDecorator", "SetPubKeyDecorator")
	}

	// ---------- R2 ----------
	if sv, ok := P.FnOK("(app/ante/evm.EthSigVerificationDecorator).AnteHandle"); ok {
		where := P.Pos(fnPos(sv))
		next := nextCallPred(sv)
		var senderCalls []ssa.CallInstruction
		isSender := isCallMatching(func(ci CallInfo) bool {
			if ci.Name != "Sender" || !ci.Invoke || ci.Recv != "Signer" {
				return false
			}
			if !errHandled(ci.Instr) {
				return false
			}
			// signer = MakeSigner(cfg(chainID from keeper))
			sl := backSlice(ci.Instr.Common().Value)
			okSigner := sl.Any(func(v ssa.Value) bool {
				c, ok := v.(*ssa.Call)
				if !ok || callInfo(c).Name != "MakeSigner" {
					return false
				}
				return backSlice(c.Call.Args[0]).HasCall(func(g CallInfo) bool { return g.Name == "ChainID" && g.Invoke })
			})
			if okSigner {
				senderCalls = append(senderCalls, ci.Instr)
			}
			return okSigner
		})
		as := typeAssertsTo(sv, "x/evm/types", "MsgEthereumTx")
		r.Floor("R2", "MsgEthereumTx assertions in sig verification", len(as), 1)
		for i, a := range as {
			for _, e := range a.OkEdges {
				tb := e.From.Succs[e.Succ]
				w := PathQuery{Fn: sv, StartBlock: tb, Block: isSender, Target: func(in ssa.Instruction) bool { return next(in) || reentersLoop(tb)(in) }}.Search()
				r.Check(w == nil, "R2", fmt.Sprintf("%s#sender-recovered-%d", fnID(sv), i+1), where, "every message's sender is recovered with the chain's signer before next / the next message",
					"a message can pass signature verification without signer.Sender(tx) (error-checked, signer built from the keeper's chain id): anyone could submit transactions for any account, or replay signatures made for another chain id", P.witness(w)...)
			}
		}
		// unprotected txs
		allow := boolCallEdges(sv, "GetAllowUnprotectedTxs")
		requireGuardFrom(r, "R2", fnID(sv)+"#protected", sv, assertOkBlocks(as), func(cond ssa.Value) (bool, bool) {
			c, ok := cond.(*ssa.Call)
			return true, ok && callInfo(c).Name == "Protected"
		}, allow, func(in ssa.Instruction) bool { return next(in) || isSender(in) }, "next only for EIP-155 protected txs unless the parameter allows unprotected ones", "an unprotected (non-EIP-155, replayable across chains) transaction can reach the next decorator although AllowUnprotectedTxs is false")
		// From stored from sender
		nFrom := 0
		eachInstr(sv, func(in ssa.Instruction) {
			st, ok := in.(*ssa.Store)
			if !ok {
				return
			}
			if sn, f, ok := fieldOfAddr(st.Addr); ok && sn == "MsgEthereumTx" && f == "From" {
				nFrom++
				dep := false
				sl := backSlice(st.Val)
				for _, sc := range senderCalls {
					if sl.Has(sc.Value()) {
						dep = true
					}
				}
				r.Check(dep, "R2", fnID(sv)+"#from-is-recovered-sender", P.Pos(instrPos(in)), "From = recovered sender", "MsgEthereumTx.From is set to something other than the sender recovered from the signature")
			}
		})
		r.Floor("R2", "From stores in sig verification", nFrom, 1)
	} else {
		r.Bad("R2", "anchor/EthSigVerificationDecorator.AnteHandle", "", "not found")
	}

	// ---------- R3 ----------
	if nd, ok := P.FnOK("(app/ante/evm.EthIncrementSenderSequenceDecorator).AnteHandle"); ok {
		where := P.Pos(fnPos(nd))
		next := nextCallPred(nd)
		var setSeq []ssa.CallInstruction
		eachCall(nd, func(ci CallInfo) {
			if ci.Name == "SetSequence" {
				setSeq = append(setSeq, ci.Instr)
			}
		})
		r.Floor("R3", "SetSequence calls", len(setSeq), 1)
		isSetSeq := func(in ssa.Instruction) bool {
			for _, c := range setSeq {
				if ssa.Instruction(c) == in {
					return true
				}
			}
			return false
		}
		isSeqOfFromAcc := func(v ssa.Value) bool {
			c, ok := v.(*ssa.Call)
			if !ok || callInfo(c).Name != "GetSequence" {
				return false
			}
			// receiver = GetAccount(ctx, msg.GetFrom())
			return backSlice(c.Call.Value).Any(func(x ssa.Value) bool {
				g, ok := x.(*ssa.Call)
				if !ok || callInfo(g).Name != "GetAccount" {
					return false
				}
				return backSlice(callArgs(g)...).HasCall(func(h CallInfo) bool { return h.Name == "GetFrom" })
			})
		}
		requireGuard(r, "R3", fnID(nd)+"#nonce-equals-sequence", nd, func(cond ssa.Value) (bool, bool) {
			b, ok := cond.(*ssa.BinOp)
			if !ok || (b.Op != token.NEQ && b.Op != token.EQL) {
				return false, false
			}
			isNonce := func(v ssa.Value) bool {
				c, ok := v.(*ssa.Call)
				return ok && callInfo(c).Name == "GetNonce"
			}
			if (isNonce(b.X) && isSeqOfFromAcc(b.Y)) || (isNonce(b.Y) && isSeqOfFromAcc(b.X)) {
				return b.Op == token.EQL, true
			}
			return false, false
		}, nil, isSetSeq, "sequence incremented only where tx nonce == account sequence", "the account sequence can be incremented (and the transaction accepted) although the transaction nonce differs from the account sequence: replay or reordering")
		for i, c := range setSeq {
			arg := argN(c, 0)
			okInc := false
			if b, ok := arg.(*ssa.BinOp); ok && b.Op == token.ADD {
				n, okc := constInt(b.Y)
				okInc = okc && n == 1 && isSeqOfFromAcc(b.X)
			}
			r.Check(okInc && errHandled(c), "R3", fmt.Sprintf("%s#increment-by-one-%d", fnID(nd), i+1), P.Pos(instrPos(c)), "SetSequence(sequence+1), error checked", "the new sequence is not the sender account's current sequence + 1 (or the error is dropped)")
			isSetAcc := isCallMatching(func(ci CallInfo) bool {
				return ci.Name == "SetAccount" && stripValue(argN(ci.Instr, 1)) == stripValue(c.Common().Value)
			})
			w := PathQuery{Fn: nd, Start: c, Block: isSetAcc, Target: func(in ssa.Instruction) bool { return next(in) || reentersLoop(c.Block())(in) }}.Search()
			r.Check(w == nil, "R3", fmt.Sprintf("%s#stored-%d", fnID(nd), i+1), P.Pos(instrPos(c)), "incremented account is stored before next / the next message", "the incremented sequence is not written back with SetAccount on some path: the same nonce could be used again", P.witness(w)...)
		}
		// every asserted message increments
		for i, a := range typeAssertsTo(nd, "x/evm/types", "MsgEthereumTx") {
			for _, e := range a.OkEdges {
				tb := e.From.Succs[e.Succ]
				w := PathQuery{Fn: nd, StartBlock: tb, Block: isSetSeq, Target: func(in ssa.Instruction) bool { return next(in) || reentersLoop(tb)(in) }}.Search()
				r.Check(w == nil, "R3", fmt.Sprintf("%s#every-message-increments-%d", fnID(nd), i+1), where, "each message bumps the sender sequence", "a message can pass without incrementing the sender's sequence", P.witness(w)...)
			}
		}
	} else {
		r.Bad("R3", "anchor/EthIncrementSenderSequenceDecorator.AnteHandle", "", "not found")
	}

	// ---------- R4 ----------
	if ed, ok := P.FnOK("(app/ante/cosmos.LegacyEip712SigVerificationDecorator).AnteHandle"); ok {
		next := nextCallPred(ed)
		bypass := append(boolCallEdges(ed, "IsReCheckTx"), paramBoolEdges(ed, "simulate")...)
		var vcall ssa.CallInstruction
		isVerify := isCallMatching(func(ci CallInfo) bool {
			if ci.Name == "VerifySignature" && ci.Static != nil && pathHasSuffix(ci.PkgPath, "app/ante/cosmos") && errHandled(ci.Instr) {
				vcall = ci.Instr
				return true
			}
			return false
		})
		w := PathQuery{Fn: ed, Block: isVerify, Target: next, DelEdge: edgeSet(bypass)}.Search()
		r.Check(w == nil, "R4", fnID(ed)+"#verify-before-next", P.Pos(fnPos(ed)), "next only after VerifySignature (bypass: recheck, simulate)", "the EIP-712 route reaches the next decorator without signature verification", P.witness(w)...)
		requireGuard(r, "R4", fnID(ed)+"#sequence-matches", ed, func(cond ssa.Value) (bool, bool) {
			b, ok := cond.(*ssa.BinOp)
			if !ok || (b.Op != token.NEQ && b.Op != token.EQL) {
				return false, false
			}
			isSigSeq := func(v ssa.Value) bool { return backSlice(v).HasField("SignatureV2", "Sequence") }
			isAccSeq := func(v ssa.Value) bool {
				c, ok := v.(*ssa.Call)
				return ok && callInfo(c).Name == "GetSequence"
			}
			if (isSigSeq(b.X) && isAccSeq(b.Y)) || (isSigSeq(b.Y) && isAccSeq(b.X)) {
				return b.Op == token.EQL, true
			}
			return false, false
		}, boolCallEdges(ed, "IsReCheckTx"), next, "next only where the signature's sequence equals the account sequence", "the EIP-712 route accepts a signature whose sequence differs from the account sequence (replay)")
		// exactly one signer: VerifySignature and the sequence comparison look at signature/signer 0 only, so next is
		// reachable only where len(signatures) == 1 and len(signatures) == len(signers)
		isLenOfCall := func(v ssa.Value, names ...string) bool {
			c, ok := stripValue(v).(*ssa.Call)
			if !ok {
				return false
			}
			b, ok := c.Call.Value.(*ssa.Builtin)
			if !ok || b.Name() != "len" {
				return false
			}
			return backSlice(c.Call.Args[0]).HasCall(func(ci CallInfo) bool {
				for _, n := range names {
					if ci.Name == n {
						return true
					}
				}
				return false
			})
		}
		requireGuard(r, "R4", fnID(ed)+"#single-signature", ed, func(cond ssa.Value) (bool, bool) {
			b, ok := cond.(*ssa.BinOp)
			if !ok || (b.Op != token.NEQ && b.Op != token.EQL) {
				return false, false
			}
			for _, pr := range [][2]ssa.Value{{b.X, b.Y}, {b.Y, b.X}} {
				if n, ok := constInt(pr[1]); ok && n == 1 && isLenOfCall(pr[0], "GetSignaturesV2") {
					return b.Op == token.EQL, true
				}
			}
			return false, false
		}, boolCallEdges(ed, "IsReCheckTx"), next, "next only where the transaction carries exactly one signature (bypass: recheck)", "the EIP-712 route reaches the next decorator with a number of signatures other than one: only signature 0 is verified and only signer 0's sequence is compared, so a second signer's messages run unauthenticated")
		requireGuard(r, "R4", fnID(ed)+"#signatures-match-signers", ed, func(cond ssa.Value) (bool, bool) {
			b, ok := cond.(*ssa.BinOp)
			if !ok || (b.Op != token.NEQ && b.Op != token.EQL) {
				return false, false
			}
			if (isLenOfCall(b.X, "GetSignaturesV2") && isLenOfCall(b.Y, "GetSigners")) || (isLenOfCall(b.Y, "GetSignaturesV2") && isLenOfCall(b.X, "GetSigners")) {
				return b.Op == token.EQL, true
			}
			return false, false
		}, boolCallEdges(ed, "IsReCheckTx"), next, "next only where the number of signatures equals the number of signers (bypass: recheck)", "the EIP-712 route no longer requires as many signatures as signers: a transaction naming a second signer is accepted on the first signer's signature alone")
		if vcall != nil {
			sd := backSlice(argN(vcall, 1))
			okSD := sd.HasCall(func(ci CallInfo) bool { return ci.Name == "ChainID" }) && sd.HasCall(func(ci CallInfo) bool { return ci.Name == "GetSequence" }) && sd.HasCall(func(ci CallInfo) bool { return ci.Name == "GetAccountNumber" })
			r.Check(okSD, "R4", fnID(ed)+"#signer-data", P.Pos(instrPos(vcall)), "signer data = (ctx.ChainID(), account number, account sequence)", "the signer data handed to VerifySignature no longer depends on ctx.ChainID(), the account number and the account sequence")
			pk := backSlice(argN(vcall, 0))
			r.Check(pk.HasCall(func(ci CallInfo) bool { return ci.Name == "GetPubKey" }), "R4", fnID(ed)+"#account-pubkey", P.Pos(instrPos(vcall)), "verifies against the account's public key", "VerifySignature is not given the signer account's public key")
		}
	} else {
		r.Bad("R4", "anchor/LegacyEip712SigVerificationDecorator.AnteHandle", "", "not found")
	}
	if vs, ok := P.FnOK("app/ante/cosmos.VerifySignature"); ok {
		nilRet := func(in ssa.Instruction) bool { return isExitKind(in, ExitSuccess) }
		callGuard := func(inst, name string, argPred func(c *ssa.Call) bool, okMsg, badMsg string) {
			requireGuard(r, "R4", fnID(vs)+"#"+inst, vs, func(cond ssa.Value) (bool, bool) {
				c, ok := cond.(*ssa.Call)
				if !ok || callInfo(c).Name != name {
					return false, false
				}
				if argPred != nil && !argPred(c) {
					return false, false
				}
				return true, true
			}, nil, nilRet, okMsg, badMsg)
		}
		requireGuard(r, "R4", fnID(vs)+"#chain-id", vs, func(cond ssa.Value) (bool, bool) {
			b, ok := cond.(*ssa.BinOp)
			if !ok || (b.Op != token.NEQ && b.Op != token.EQL) {
				return false, false
			}
			l, rr := backSlice(b.X), backSlice(b.Y)
			isExt := func(s *Slice) bool { return s.HasField("ExtensionOptionsWeb3Tx", "TypedDataChainID") }
			isChain := func(s *Slice) bool {
				return s.HasCall(func(ci CallInfo) bool { return ci.Name == "ParseChainID" }) && s.HasField("SignerData", "ChainID")
			}
			if (isExt(l) && isChain(rr)) || (isExt(rr) && isChain(l)) {
				return b.Op == token.EQL, true
			}
			return false, false
		}, nil, nilRet, "nil only where the typed-data chain id equals the chain id of the signer data", "EIP-712 verification can succeed although the typed-data chain id differs from this chain's id (cross-chain replay)")
		callGuard("pubkey-matches", "Equals", func(c *ssa.Call) bool {
			a := callArgs(c)
			return len(a) == 2 && (isParam(a[0], "pubKey") || isParam(a[1], "pubKey"))
		}, "nil only where the recovered key equals the account key", "EIP-712 verification can succeed although the key recovered from the signature differs from the account's public key")
		callGuard("feepayer-matches", "Equals", func(c *ssa.Call) bool {
			a := callArgs(c)
			if len(a) != 2 {
				return false
			}
			s := backSlice(a...)
			return s.HasField("ExtensionOptionsWeb3Tx", "FeePayer") && !isParam(a[0], "pubKey")
		}, "nil only where the recovered address equals the declared fee payer", "EIP-712 verification can succeed although the recovered signer is not the declared fee payer")
		var hashOK bool
		callGuard("secp256k1-verify", "VerifySignature", func(c *ssa.Call) bool {
			if !pathHasSuffix(callInfo(c).PkgPath, "crypto/secp256k1") {
				return false
			}
			h := backSlice(c.Call.Args[1])
			hashOK = h.HasCall(func(ci CallInfo) bool { return ci.Name == "TypedDataAndHash" }) && h.HasCall(func(ci CallInfo) bool { return ci.Name == "StdSignBytes" }) &&
				h.HasField("SignerData", "ChainID") && h.HasField("SignerData", "AccountNumber") && h.HasField("SignerData", "Sequence")
			return isParam(stripCall(c.Call.Args[0]), "pubKey") || backSlice(c.Call.Args[0]).HasParam("pubKey")
		}, "nil only after secp256k1.VerifySignature(pubKey, hash, sig)", "EIP-712 verification can succeed without the secp256k1 signature check")
		r.Check(hashOK, "R4", fnID(vs)+"#hash-covers-signer-data", P.Pos(fnPos(vs)), "verified hash = TypedDataAndHash(… StdSignBytes(chain id, account number, sequence, …))", "the hash that is verified no longer depends on StdSignBytes over the signer data (chain id, account number, sequence): signatures would be replayable")
	} else {
		r.Bad("R4", "anchor/VerifySignature", "", "not found")
	}

	// ---------- R5 ----------
	allowedFrom := map[string]string{
		"(app/ante/evm.EthSigVerificationDecorator).AnteHandle": "recovered sender",
		"(*x/evm/types.MsgEthereumTx).GetSender":                "recovered sender (client / GetSigners)",
		"(*x/evm/types.MsgEthereumTx).BuildTx":                  "clears From before broadcasting",
	}
	sc := scopesOf(r)
	nW := 0
	for _, fn := range P.Funcs {
		if isTestSupport(P, fn) || fn.Synthetic != "" || isGeneratedFile(P.FileOf(fnPos(outermost(fn)))) {
			continue
		}
		eachInstr(fn, func(in ssa.Instruction) {
			st, ok := in.(*ssa.Store)
			if !ok {
				return
			}
			sn, f, ok := fieldOfAddr(st.Addr)
			if !ok || sn != "MsgEthereumTx" || f != "From" || namedPkgPath(st.Addr.(*ssa.FieldAddr).X.Type()) != haqqMod+"/x/evm/types" {
				return
			}
			nW++
			owner := fnID(outermost(fn))
			inst := owner + "#writes-From"
			if why, ok := allowedFrom[owner]; ok {
				r.OK("R5", inst, P.Pos(instrPos(in)), why)
			} else if !sc.S.Has(fn) {
				r.OK("R5", inst, P.Pos(instrPos(in)), "outside consensus scope (client / rpc)")
			} else {
				r.Bad("R5", inst, P.Pos(instrPos(in)), "consensus-reachable code other than the signature verifier writes MsgEthereumTx.From (the sender every later decorator and the state transition trust)", sc.S.Chain(fn)...)
			}
		})
	}
	r.Floor("R5", "stores to MsgEthereumTx.From", nW, 3)
	if vb, ok := P.FnOK("(app/ante/evm.EthValidateBasicDecorator).AnteHandle"); ok {
		vbAs := typeAssertsTo(vb, "x/evm/types", "MsgEthereumTx")
		requireGuardFrom(r, "R5", fnID(vb)+"#from-arrives-empty", vb, assertOkBlocks(vbAs), func(cond ssa.Value) (bool, bool) {
			b, ok := cond.(*ssa.BinOp)
			if !ok || (b.Op != token.NEQ && b.Op != token.EQL) {
				return false, false
			}
			s, okc := constString(b.Y)
			if !okc || s != "" || !backSlice(b.X).HasField("MsgEthereumTx", "From") {
				return false, false
			}
			return b.Op == token.EQL, true
		}, boolCallEdges(vb, "IsReCheckTx"), func(in ssa.Instruction) bool {
			if nextCallPred(vb)(in) {
				return true
			}
			for _, a := range vbAs {
				for _, e := range a.OkEdges {
					if reentersLoop(e.From.Succs[e.Succ])(in) {
						return true
					}
				}
			}
			return false
		}, "next only where every message arrived with an empty From", "a transaction that already carries a From value is accepted by the eth route")
	}

	// ---------- R6 ----------
	c03Secp(r)

	// ---------- R7 ----------
	r.Rule("R7", "TABLE.signdoc-coverage: the functions that rebuild the EIP-712 payload from a protobuf sign doc read every field of SignDoc, TxBody, AuthInfo and Fee — each field either feeds the sign bytes or is rejected when set; an unread field is not covered by the signature and can be changed by anyone relaying the transaction")
	for _, fname := range []string{"ethereum/eip712.decodeProtobufSignDoc", "ethereum/eip712.legacyDecodeProtobufSignDoc"} {
		fn, ok := P.FnOK(fname)
		if !ok {
			r.Bad("R7", "anchor/"+fname, "", "not found")
			continue
		}
		read := map[string]bool{}
		eachInstr(fn, func(in ssa.Instruction) {
			v, _ := in.(ssa.Value)
			if v == nil {
				return
			}
			if sn, f, ok := fieldOfAddr(v); ok {
				read[sn+"."+f] = true
			}
			if sn, f, ok := fieldOfValue(v); ok {
				read[sn+"."+f] = true
			}
		})
		n := 0
		for _, tn := range []string{"SignDoc", "TxBody", "AuthInfo", "Fee"} {
			t := P.LookupType("github.com/cosmos/cosmos-sdk/types/tx", tn)
			if t == nil {
				r.Fail("type tx.%s not found", tn)
				continue
			}
			st := t.Type().Underlying().(*types.Struct)
			for i := 0; i < st.NumFields(); i++ {
				f := st.Field(i)
				if !f.Exported() || strings.HasPrefix(f.Name(), "XXX_") {
					continue
				}
				n++
				key := tn + "." + f.Name()
				r.Check(read[key], "R7", fnID(fn)+"#covers-"+key, P.Pos(fnPos(fn)), "field is read (signed or rejected)",
					"sign-doc field "+key+" is never read while the EIP-712 payload is rebuilt: it is not covered by the signature, so a relayer can alter it on a signed transaction")
			}
		}
		r.Floor("R7", "sign-doc fields of "+fname, n, 14)
	}
	// the Web3Tx route rebuilds the sign bytes from tx accessors: every fee-related accessor of the tx must feed StdSignBytes
	if vs, ok := P.FnOK("app/ante/cosmos.VerifySignature"); ok {
		eachCall(vs, func(ci CallInfo) {
			if ci.Name != "StdSignBytes" {
				return
			}
			all := backSlice(ci.Instr.Common().Args...)
			for _, acc := range []string{"GetFee", "GetGas", "GetMemo", "GetTimeoutHeight", "GetMsgs", "FeeGranter"} {
				has := all.HasCall(func(g CallInfo) bool { return g.Name == acc })
				r.Check(has, "R7", fnID(vs)+"#signbytes-cover-tx."+acc, P.Pos(instrPos(ci.Instr)), "tx."+acc+"() feeds the sign bytes",
					"the sign bytes rebuilt for the EIP-712 (Web3Tx) route do not depend on tx."+acc+"(): that part of the transaction is not covered by the signature and can be altered by a relayer")
			}
		})
	}

	// ---------- R8: the sequence the ante handler advanced is never moved backwards ----------
	r.Rule("R9", "PATH.sequence-survives-replacement: in consensus scope a freshly constructed base account (authtypes.NewBaseAccountWithAddress / NewBaseAccount / ProtoBaseAccount: sequence 0) is used to build an account object only over the edge on which the address had no account (GetAccount(…) == nil); converting an existing account reuses its own BaseAccount — a replaced account whose sequence restarts at 0 accepts its old signed transactions again")
	{
		sc := scopesOf(r)
		nFresh := 0
		for _, fn := range sc.S.HaqqFuncs() {
			if isTestSupport(P, fn) || isGeneratedFile(P.FileOf(fnPos(fn))) {
				continue
			}
			var fresh []*ssa.Call
			eachInstr(fn, func(in ssa.Instruction) {
				if c, ok := in.(*ssa.Call); ok {
					ci := callInfo(c)
					if pathHasSuffix(ci.PkgPath, "x/auth/types") && (ci.Name == "NewBaseAccountWithAddress" || ci.Name == "NewBaseAccount" || ci.Name == "ProtoBaseAccount") {
						fresh = append(fresh, c)
					}
				}
			})
			if len(fresh) == 0 {
				continue
			}
			noAcc, _ := condEdges(fn, func(x, y ssa.Value) bool {
				return isNilConst(y) && backSlice(x).HasCall(func(ci CallInfo) bool { return ci.Name == "GetAccount" })
			})
			for i, fc := range fresh {
				nFresh++
				// uses: calls that receive the fresh base account (the value itself, through phis / interface
				// conversions / a local variable) as an argument
				var uses []ssa.Instruction
				seenV := map[ssa.Value]bool{}
				var follow func(v ssa.Value)
				follow = func(v ssa.Value) {
					if seenV[v] || v.Referrers() == nil {
						return
					}
					seenV[v] = true
					for _, ref := range *v.Referrers() {
						switch x := ref.(type) {
						case ssa.CallInstruction:
							if ref != ssa.Instruction(fc) {
								uses = append(uses, ref)
							}
						case *ssa.Phi:
							follow(x)
						case *ssa.MakeInterface:
							follow(x)
						case *ssa.ChangeType:
							follow(x)
						case *ssa.ChangeInterface:
							follow(x)
						case *ssa.Store:
							if al, ok := x.Addr.(*ssa.Alloc); ok && x.Val == v {
								for _, r2 := range *al.Referrers() {
									if u, ok := r2.(*ssa.UnOp); ok {
										follow(u)
									}
								}
							}
						}
					}
				}
				follow(fc)
				isUse := func(in ssa.Instruction) bool {
					for _, u := range uses {
						if u == in {
							return true
						}
					}
					return false
				}
				inst := fmt.Sprintf("%s#fresh-base-account-%d", fnID(fn), i+1)
				if len(noAcc) == 0 {
					r.Bad("R9", inst, P.Pos(instrPos(fc)), "a fresh base account is built in a function that never tests whether the address already has an account")
					continue
				}
				w := PathQuery{Fn: fn, Target: isUse, DelEdge: edgeSet(noAcc)}.Search()
				r.Check(w == nil, "R9", inst, P.Pos(instrPos(fc)), "used only where the address had no account",
					"a freshly constructed base account (sequence 0) can be used to build the account object of an address that already has an account: the stored account loses its sequence, and every transaction the account ever signed becomes valid again", P.witness(w)...)
			}
		}
		r.Count("R9 fresh base accounts built in consensus scope", nFresh)
		r.Floor("R9", "fresh base accounts built in consensus scope", nFresh, 2)
	}
	r.Rule("R10", "PATH+TABLE.wrapper-is-canonical: the Cosmos envelope of an Ethereum transaction is not signed, so EthValidateBasicDecorator pins it to the signed content: next is reachable (bypass: recheck) only where AuthInfo.Fee.Amount.IsEqual(sum of the messages' Fee() in the EVM denomination) — equality of the whole coin set — and AuthInfo.Fee.GasLimit equals the sum of the messages' gas; every field of TxBody, AuthInfo and Fee is read by the decorator (verified empty or matched), except the tabled AuthInfo.Tip (no tip handler is installed)")
	if vb, ok := P.FnOK("(app/ante/evm.EthValidateBasicDecorator).AnteHandle"); ok {
		next := nextCallPred(vb)
		bypass := boolCallEdges(vb, "IsReCheckTx")
		requireGuard(r, "R10", fnID(vb)+"#fee-amount-equals-tx-fees", vb, func(cond ssa.Value) (bool, bool) {
			c, ok := cond.(*ssa.Call)
			if !ok || callInfo(c).Name != "IsEqual" {
				return false, false
			}
			a := callArgs(c)
			if len(a) != 2 {
				return false, false
			}
			l, rr := backSlice(a[0]), backSlice(a[1])
			isDecl := func(s *Slice) bool { return s.HasField("Fee", "Amount") }
			isTx := func(s *Slice) bool { return s.HasCall(func(g CallInfo) bool { return g.Name == "Fee" }) }
			return true, (isDecl(l) && isTx(rr)) || (isDecl(rr) && isTx(l))
		}, bypass, next, "next only where the declared fee coins equal the transactions' fees (whole coin set)", "the eth route accepts an envelope whose declared fee is not exactly the signed transactions' fee (e.g. compared in one denomination only): the unsigned envelope can be altered by whoever relays it")
		requireGuard(r, "R10", fnID(vb)+"#gas-limit-equals-tx-gas", vb, func(cond ssa.Value) (bool, bool) {
			b, ok := cond.(*ssa.BinOp)
			if !ok || (b.Op != token.EQL && b.Op != token.NEQ) {
				return false, false
			}
			l, rr := backSlice(b.X), backSlice(b.Y)
			isDecl := func(s *Slice) bool { return s.HasField("Fee", "GasLimit") }
			isTx := func(s *Slice) bool { return s.HasCall(func(g CallInfo) bool { return g.Name == "GetGas" }) }
			if (isDecl(l) && isTx(rr)) || (isDecl(rr) && isTx(l)) {
				return b.Op == token.EQL, true
			}
			return false, false
		}, bypass, next, "next only where the declared gas limit equals the transactions' gas", "the eth route accepts an envelope whose gas limit differs from the signed transactions' gas")
		// field coverage
		read := map[string]bool{}
		eachInstr(vb, func(in ssa.Instruction) {
			if v, ok := in.(ssa.Value); ok {
				if sn, f, ok := fieldOfAddr(v); ok {
					read[sn+"."+f] = true
				}
				if sn, f, ok := fieldOfValue(v); ok {
					read[sn+"."+f] = true
				}
			}
		})
		// getters count as reads of the field they return
		eachCall(vb, func(ci CallInfo) {
			if ci.Name == "GetMsgs" && ci.Recv == "Tx" {
				read["TxBody.Messages"] = true
			}
		})
		tabled := map[string]string{"AuthInfo.Tip": "no tip handler is installed in Haqq's ante/post chain: the field has no effect", "TxBody.Messages": "read through GetMsgs()"}
		for _, tn := range []string{"TxBody", "AuthInfo", "Fee"} {
			t := P.LookupType("github.com/cosmos/cosmos-sdk/types/tx", tn)
			if t == nil {
				r.Bad("R10", "anchor/tx."+tn, "", "type not found")
				continue
			}
			st, _ := t.Type().Underlying().(*types.Struct)
			for i := 0; st != nil && i < st.NumFields(); i++ {
				f := st.Field(i)
				if !f.Exported() || strings.HasPrefix(f.Name(), "XXX") {
					continue
				}
				key := tn + "." + f.Name()
				if why, ok := tabled[key]; ok && !read[key] {
					r.OK("R10", fnID(vb)+"#reads/"+key, P.Pos(fnPos(vb)), "tabled: "+why)
					continue
				}
				r.Check(read[key], "R10", fnID(vb)+"#reads/"+key, P.Pos(fnPos(vb)), "read by the decorator", "EthValidateBasicDecorator never looks at "+key+" of the unsigned envelope: whoever relays the transaction can set it")
			}
		}
	} else {
		r.Bad("R10", "anchor/EthValidateBasicDecorator.AnteHandle", "", "not found")
	}
	r.Rule("R8", "OWN/FLOW.nonce-not-rewound: the ante handler advances the sender's sequence once per Ethereum message (R3); any other consensus-scope write of an account nonce outside x/evm/statedb — StateDB.SetNonce from keeper code — is either a temporary reset that is followed on every path by another SetNonce, or its value depends on the nonce found before (GetNonce), so that it cannot fall behind what the ante handler set (a batch [create n, call n+1] otherwise ends at n+1 and the call can be executed again)")
	nSet := 0
	for _, fn := range scopesOf(r).S.HaqqFuncs() {
		pk := fnPkgPath(fn)
		if strings.HasSuffix(pk, "/x/evm/statedb") || isTestSupport(P, fn) {
			continue
		}
		var sets []ssa.CallInstruction
		eachCall(fn, func(ci CallInfo) {
			if ci.Name == "SetNonce" && (ci.Recv == "StateDB" || ci.Invoke) {
				sets = append(sets, ci.Instr)
			}
		})
		for i, c := range sets {
			nSet++
			isOther := func(in ssa.Instruction) bool {
				for _, o := range sets {
					if o != c && ssa.Instruction(o) == in {
						return true
					}
				}
				return false
			}
			// last nonce write on some path?
			w := PathQuery{Fn: fn, Start: c, Block: isOther, Target: func(in ssa.Instruction) bool { _, ok := in.(*ssa.Return); return ok }}.Search()
			if w == nil {
				r.OK("R8", fmt.Sprintf("%s#SetNonce-%d", fnID(fn), i+1), P.Pos(instrPos(c)), "temporary reset: another SetNonce follows on every path")
				continue
			}
			args := c.Common().Args
			val := args[len(args)-1]
			dep := backSlice(val).HasCall(func(g CallInfo) bool { return g.Name == "GetNonce" || g.Name == "GetSequence" })
			r.Check(dep, "R8", fmt.Sprintf("%s#SetNonce-%d", fnID(fn), i+1), P.Pos(instrPos(c)), "final nonce takes the nonce found before into account",
				"this is the last nonce write on some path and its value derives only from the message (msg.Nonce()+1), not from the nonce the ante handler left: when a transaction carries several Ethereum messages of one sender the sequence is moved backwards and the later messages can be delivered and executed again")
		}
	}
	r.Floor("R8", "StateDB.SetNonce call sites in keeper code", nSet, 2)
	c03MessageList(r)
	c03ChainRunsThrough(r)
	r.Rule("R13", "see C06 R7 (imported): the ante router returns success only through one of its three route chains — a fast path in the router (genesis transactions 'validated when the genesis file was assembled') executes transactions whose signature nobody checked")
	r.Import("R13/C06.", []string{"R7"}, runC06)
	checkParamsRewrites(r, "R14")
	r.Rule("R15", "SHAPE.sign-bytes-are-the-message's-own: for the amino/legacy sign modes the bytes a signer signs are GetSignBytes() of each message. In every Haqq message type GetSignBytes marshals the message itself (its receiver) — not a rebuilt copy with 'canonicalised' or defaulted fields: if the signed bytes are a function of less than the message, two different messages (an address in lower and in upper case, decoded alike by the handler) carry the same valid signature, and anyone relaying the transaction can swap one for the other")
	{
		nSB := 0
		for _, fn := range r.P.Funcs {
			if fn.Name() != "GetSignBytes" || fn.Signature.Recv() == nil || fn.Synthetic != "" || isTestSupport(r.P, fn) || !isHaqqPath(fnPkgPath(fn)) || isGeneratedFile(r.P.FileOf(fnPos(fn))) {
				continue
			}
			nSB++
			recv := fn.Params[0]
			okSelf, nM := true, 0
			eachCall(fn, func(ci CallInfo) {
				if !(ci.Name == "MustMarshalJSON" || ci.Name == "MarshalJSON" || ci.Name == "MustMarshal") {
					return
				}
				nM++
				self := false
				for _, a := range ci.Instr.Common().Args {
					v := a
					if mi, ok := v.(*ssa.MakeInterface); ok {
						v = mi.X
					}
					v = stripValue(v)
					if v == ssa.Value(recv) {
						self = true
					}
					// value receiver: the message is spilled into an alloc whose only writer is the receiver
					if al, ok := v.(*ssa.Alloc); ok && al.Referrers() != nil {
						nSt, okSt := 0, true
						for _, ref := range *al.Referrers() {
							if st, ok := ref.(*ssa.Store); ok && st.Addr == ssa.Value(al) {
								nSt++
								// the receiver itself (value receiver spilled) or a whole-struct copy of what it points to
								whole := false
								if u, ok := st.Val.(*ssa.UnOp); ok && u.Op == token.MUL && stripValue(u.X) == ssa.Value(recv) {
									whole = true
								}
								if st.Val != ssa.Value(recv) && !whole {
									okSt = false
								}
							}
						}
						if nSt == 1 && okSt {
							self = true
						}
					}
					if u, ok := v.(*ssa.UnOp); ok && stripValue(u.X) == ssa.Value(recv) {
						self = true
					}
				}
				if !self {
					okSelf = false
				}
			})
			if nM == 0 && fnOnlyPanics(fn) {
				r.OK("R15", fnID(fn)+"#marshals-its-receiver", r.P.Pos(fnPos(fn)), "not usable for signing (panics)")
				continue
			}
			r.Check(okSelf && nM >= 1, "R15", fnID(fn)+"#marshals-its-receiver", r.P.Pos(fnPos(fn)), "the marshalled value is the receiver",
				"GetSignBytes marshals something other than the message it belongs to (a rebuilt copy): the signature no longer covers every byte of the message that is executed")
		}
		r.Floor("R15", "GetSignBytes methods of Haqq message types", nSB, 10)
	}
	r.Rule("R16", "see C02 R3 (imported): the sequence (nonce) of every journal-dirty account is written back by the StateDB's write-back loop on every flush and commit — a 'skip unchanged accounts' shortcut judged against the value at load time leaves an intermediate nonce that a mid-transaction flush wrote in the store (the creation message of a [create(n), call(n+1)] batch), i.e. a sequence the ante handler already consumed can be consumed again")
	r.Import("R16/C02.", []string{"R3"}, runC02)
	r.Rule("R17", "SHAPE.signed-bytes-cover-the-transaction's-bytes: an EIP-712 signature is checked against typed data rebuilt from the *decoded* transaction, so whatever the decoding drops is not signed. (a) the two decoders of a SIGN_MODE_DIRECT sign doc (decodeProtobufSignDoc, legacyDecodeProtobufSignDoc) hand SignDoc.BodyBytes to unknownproto.RejectUnknownFields(Strict) or compare them (bytes.Equal) with a re-encoding before building typed data; (b) the Web3Tx route, which signs over legacytx.StdSignBytes, looks at the body's non-critical extension options (which the SDK's amino-JSON handler refuses and this chain has no ExtensionOptionsDecorator for) before it verifies. Without these anybody can append bytes to a signed transaction without invalidating the signature: the ante handler charges 10 gas per byte against the signed gas limit, so the victim's transaction runs out of gas after the fee is taken and the sequence used")
	for _, id := range []string{"ethereum/eip712.decodeProtobufSignDoc", "ethereum/eip712.legacyDecodeProtobufSignDoc"} {
		fn, ok := r.P.FnOK(id)
		if !ok {
			r.Bad("R17", "anchor/"+id, "", "not found")
			continue
		}
		covered := false
		eachCall(fn, func(ci CallInfo) {
			if !(strings.HasPrefix(ci.Name, "RejectUnknownFields") || (ci.Name == "Equal" && strings.HasSuffix(ci.PkgPath, "bytes"))) {
				// a same-package helper that is handed the sign doc and does one of the above
				if ci.Static == nil || fnPkgPath(ci.Static) != fnPkgPath(fn) {
					return
				}
				takesDoc := false
				for _, a := range ci.Instr.Common().Args {
					if namedName(deref(a.Type())) == "SignDoc" {
						takesDoc = true
					}
				}
				if !takesDoc {
					return
				}
				eachCall(ci.Static, func(g CallInfo) {
					if strings.HasPrefix(g.Name, "RejectUnknownFields") || (g.Name == "Equal" && strings.HasSuffix(g.PkgPath, "bytes")) {
						for _, a := range g.Instr.Common().Args {
							if backSlice(a).HasField("SignDoc", "BodyBytes") {
								covered = true
							}
						}
					}
				})
				return
			}
			for _, a := range ci.Instr.Common().Args {
				if backSlice(a).HasField("SignDoc", "BodyBytes") {
					covered = true
				}
			}
		})
		r.Check(covered, "R17", fnID(fn)+"#body-bytes-covered", r.P.Pos(fnPos(fn)), "SignDoc.BodyBytes pass RejectUnknownFields / a canonical-encoding comparison",
			fnID(fn)+" builds the typed data an EIP-712 signature is verified against from the unmarshalled body only: bytes the unmarshalling drops (an unknown non-critical field 1024 appended to body_bytes, a repeated memo field) are not signed. A third party appends 3130 bytes to a victim's signed transaction: DeliverTx code 11 (out of gas), the victim's sequence goes 2 → 3 and the fee of 110957000000000 aISLM is taken, nothing is sent")
	}
	if fn, ok := r.P.FnOK("(app/ante/cosmos.LegacyEip712SigVerificationDecorator).AnteHandle"); ok {
		looks := false
		for _, g := range append([]*ssa.Function{fn}, samePkgCallees(fn)...) {
			eachCall(g, func(ci CallInfo) {
				if ci.Name == "GetNonCriticalExtensionOptions" {
					looks = true
				}
			})
			eachInstr(g, func(in ssa.Instruction) {
				if fa, ok := in.(*ssa.FieldAddr); ok {
					if _, f, ok := fieldOfAddr(fa); ok && f == "NonCriticalExtensionOptions" {
						looks = true
					}
				}
			})
		}
		r.Check(looks, "R17", fnID(fn)+"#non-critical-options-refused", r.P.Pos(fnPos(fn)), "the Web3Tx verifier looks at the non-critical extension options",
			"the Web3Tx (legacy EIP-712) route verifies the signature over legacytx.StdSignBytes and never looks at the body's non_critical_extension_options (nor at unknown body fields): a third party adds a 3056-byte non-critical option to a victim's signed Web3Tx transaction — code 11, sequence 2 → 3, fee 112094500000000 aISLM taken, nothing sent; with 100 extra bytes the changed transaction simply executes")
	} else {
		r.Bad("R17", "anchor/LegacyEip712SigVerificationDecorator.AnteHandle", "", "not found")
	}
}

// samePkgCallees: the functions of fn's package that fn calls statically (one level).
func samePkgCallees(fn *ssa.Function) []*ssa.Function {
	var out []*ssa.Function
	seen := map[*ssa.Function]bool{}
	eachCall(fn, func(ci CallInfo) {
		if ci.Static != nil && fnPkgPath(ci.Static) == fnPkgPath(fn) && !seen[ci.Static] {
			seen[ci.Static] = true
			out = append(out, ci.Static)
		}
	})
	return out
}

// c03ChainRunsThrough (C03 R12): no decorator ends its chain with success.
func c03ChainRunsThrough(r *Run) {
	P := r.P
	r.Rule("R12", "PATH.no-decorator-ends-the-chain: in every Haqq decorator of the three ante chains, each success exit of AnteHandle passes the call of next — a decorator that returns (ctx, nil) on some branch (a 'nothing to do' fast path) silently drops every decorator behind it: public-key set-up, signature verification and the sequence increment sit at the end of the Cosmos chains, so such a transaction is executed unauthenticated and can be replayed")
	n := 0
	seen := map[*ssa.Function]bool{}
	for _, cn := range []string{"newEVMAnteHandler", "newCosmosAnteHandler", "newLegacyCosmosAnteHandlerEip712"} {
		c := anteChains(r)[cn]
		if c == nil {
			continue
		}
		for _, d := range c.Decors {
			if d.Handle == nil || seen[d.Handle] {
				continue
			}
			seen[d.Handle] = true
			n++
			isNext := nextCallPred(d.Handle)
			w := PathQuery{Fn: d.Handle, Block: isNext, Target: func(in ssa.Instruction) bool {
				ret, ok := in.(*ssa.Return)
				return ok && classifyExit(ret) == ExitSuccess
			}}.Search()
			r.Check(w == nil, "R12", fnID(d.Handle)+"#runs-through", P.Pos(fnPos(d.Handle)), "every success exit passes next",
				"the decorator can return success without calling next: the rest of the chain (for the Cosmos routes: signature verification and the sequence increment) is skipped for that transaction", P.witness(w)...)
		}
	}
	r.Floor("R12", "Haqq decorators in the three chains", n, 17)
}

// c03MessageList (C03 R11): the EIP-712 typed data is built from the whole message list.
func c03MessageList(r *Run) {
	P := r.P
	r.Rule("R11", "FLOW.typed-data-covers-every-message: in ethereum/eip712 the list of messages taken from the sign doc ([]gjson.Result) is never cut (no slice expression is applied to it), a function that returns such a list returns the JSON array's own element list on every success exit, and a loop over it is left from inside only with an error and cannot reach its next iteration without handing the current element to a function — a message that is executed but not hashed can be appended to a signed transaction by anyone")
	isMsgList := func(t types.Type) bool {
		sl, ok := t.Underlying().(*types.Slice)
		return ok && namedName(sl.Elem()) == "Result" && strings.HasSuffix(namedPkgPath(sl.Elem()), "gjson")
	}
	nF, nL := 0, 0
	for _, fn := range P.Funcs {
		if !pathHasSuffix(fnPkgPath(fn), "ethereum/eip712") || fn.Synthetic != "" || isTestSupport(P, fn) {
			continue
		}
		eachInstr(fn, func(in ssa.Instruction) {
			if sl, ok := in.(*ssa.Slice); ok && isMsgList(sl.X.Type()) {
				r.Bad("R11", fnID(fn)+"#message-list-cut", P.Pos(instrPos(in)), "the message list of the sign doc is cut with a slice expression: the messages outside the cut are not part of the EIP-712 types and message, so they are not hashed — but the transaction still executes them")
			}
		})
		res := fn.Signature.Results()
		for i := 0; i < res.Len(); i++ {
			if !isMsgList(res.At(i).Type()) {
				continue
			}
			nF++
			idx := i
			okAll, nRet := true, 0
			eachInstr(fn, func(in ssa.Instruction) {
				ret, ok := in.(*ssa.Return)
				if !ok || classifyExit(ret) == ExitFailure {
					return
				}
				nRet++
				c, isC := stripValue(retOperands(ret)[idx]).(*ssa.Call)
				if !isC || callInfo(c).Name != "Array" {
					okAll = false
				}
			})
			r.Check(okAll && nRet > 0, "R11", fnID(fn)+"#returns-whole-array", P.Pos(fnPos(fn)), "every success exit returns Result.Array() itself",
				"a function that hands out the sign doc's message list returns something other than the JSON array's full element list")
		}
		for _, h := range fn.Blocks {
			if !isLoopHeader(h) {
				continue
			}
			body := loopBody(h)
			elems := map[ssa.Value]bool{}
			for b := range body {
				for _, in := range b.Instrs {
					if ia, ok := in.(*ssa.IndexAddr); ok && isMsgList(ia.X.Type()) {
						if _, isConst := ia.Index.(*ssa.Const); !isConst { // x[0] of some array field is not an iteration
							elems[ia] = true
						}
					}
				}
			}
			if len(elems) == 0 {
				continue
			}
			nL++
			usesElem := func(in ssa.Instruction) bool {
				c, ok := in.(ssa.CallInstruction)
				if !ok || c.Common().StaticCallee() == nil {
					return false
				}
				for _, a := range c.Common().Args {
					hit := false
					backSlice(a).Any(func(v ssa.Value) bool {
						if elems[v] {
							hit = true
						}
						return hit
					})
					if hit {
						return true
					}
				}
				return false
			}
			var w []ssa.Instruction
			for _, sc := range h.Succs {
				if body[sc] && sc != h {
					if p := (PathQuery{Fn: fn, StartBlock: sc, Block: usesElem, Target: func(in ssa.Instruction) bool { return in == h.Instrs[0] }}).Search(); p != nil {
						w = p
					}
				}
			}
			early := ""
			for b := range body {
				if b == h {
					continue
				}
				for _, sc := range b.Succs {
					if body[sc] {
						continue
					}
					if p := (PathQuery{Fn: fn, StartBlock: sc, Target: isSuccessExit}).Search(); p != nil {
						early = P.Pos(instrPos(b.Instrs[len(b.Instrs)-1]))
					}
				}
			}
			r.Check(w == nil && early == "", "R11", fmt.Sprintf("%s#loop@%s/every-message", fnID(fn), h.Comment), P.Pos(instrPos(h.Instrs[0])), "every message is handed on; the loop is left early only with an error",
				"the loop over the sign doc's messages can skip a message or stop early with success (left at "+early+"): that message is executed but not covered by the typed-data hash", P.witness(w)...)
		}
	}
	r.Floor("R11", "functions returning the sign doc's message list", nF, 1)
	r.Floor("R11", "loops over the sign doc's message list", nL, 1)
}

func stripCall(v ssa.Value) ssa.Value {
	if c, ok := v.(*ssa.Call); ok && len(c.Call.Args) > 0 {
		return c.Call.Args[0]
	}
	return v
}

func c03Secp(r *Run) {
	P := r.P
	const pk = "crypto/ethsecp256k1"
	ecdsa, ok := P.FnOK("(" + pk + ".PubKey).verifySignatureECDSA")
	if !ok {
		r.Bad("R6", "anchor/verifySignatureECDSA", "", "not found")
		return
	}
	// ECDSA: every return is the crypto.VerifySignature call with the right arguments
	okE, n := true, 0
	eachInstr(ecdsa, func(in ssa.Instruction) {
		ret, isR := in.(*ssa.Return)
		if !isR {
			return
		}
		n++
		c, isC := ret.Results[0].(*ssa.Call)
		if !isC {
			if k, isK := ret.Results[0].(*ssa.Const); isK && k.Value.String() == "false" {
				return
			}
			okE = false
			return
		}
		ci := callInfo(c)
		if ci.Name != "VerifySignature" || !strings.HasSuffix(ci.PkgPath, "go-ethereum/crypto") {
			okE = false
			return
		}
		a := c.Call.Args
		if !(backSlice(a[0]).HasField("PubKey", "Key") && backSlice(a[1]).HasCall(func(g CallInfo) bool { return g.Name == "Keccak256Hash" }) && backSlice(a[1]).HasParam("msg") && backSlice(a[2]).HasParam("sig")) {
			okE = false
		}
	})
	r.Check(okE && n > 0, "R6", fnID(ecdsa)+"#ecdsa", P.Pos(fnPos(ecdsa)), "returns crypto.VerifySignature(key, Keccak256(msg), sig)", "verifySignatureECDSA no longer returns crypto.VerifySignature(pubKey.Key, Keccak256Hash(msg), sig)")
	for _, name := range []string{"VerifySignature", "verifySignatureAsEIP712"} {
		fn, ok := P.FnOK("(" + pk + ".PubKey)." + name)
		if !ok {
			r.Bad("R6", "anchor/"+name, "", "not found")
			continue
		}
		isVerifier := func(v ssa.Value) bool {
			c, ok := v.(*ssa.Call)
			if !ok {
				return false
			}
			nm := callInfo(c).Name
			return nm == "verifySignatureECDSA" || nm == "verifySignatureAsEIP712"
		}
		bad := ""
		var okVal func(v ssa.Value, at *ssa.BasicBlock, d int) bool
		okVal = func(v ssa.Value, at *ssa.BasicBlock, d int) bool {
			if d > 6 {
				return false
			}
			switch x := v.(type) {
			case *ssa.Const:
				if x.Value.String() == "false" {
					return true
				}
				// constant true: the block must be dominated by the true edge of an If on a verifier call
				for b := at; b != nil; b = b.Idom() {
					dmn := b.Idom()
					if dmn == nil {
						break
					}
					if ifi, ok := lastIf(dmn); ok && isVerifier(ifi.Cond) && len(dmn.Succs[0].Preds) == 1 && dominates(dmn.Succs[0], at) {
						return true
					}
				}
				return false
			case *ssa.Call:
				return isVerifier(x)
			case *ssa.Phi:
				for i, e := range x.Edges {
					p := x.Block().Preds[i]
					if k, isK := e.(*ssa.Const); isK && k.Value.String() == "true" {
						// short-circuit `A() || …`: the constant arrives over the true edge of `if A()`
						if ifi, ok := lastIf(p); ok && isVerifier(ifi.Cond) && p.Succs[0] == x.Block() {
							continue
						}
					}
					if !okVal(e, p, d+1) {
						return false
					}
				}
				return true
			}
			return false
		}
		eachInstr(fn, func(in ssa.Instruction) {
			if ret, ok := in.(*ssa.Return); ok {
				if !okVal(ret.Results[0], ret.Block(), 0) {
					bad = P.Pos(instrPos(in))
				}
			}
		})
		r.Check(bad == "", "R6", fnID(fn)+"#true-only-via-ecdsa", P.Pos(fnPos(fn)), "true only through ECDSA verification", "returns a value at "+bad+" that is not the result of the ECDSA verification: a signature could be accepted without being checked")
	}
}

func assertOkBlocks(as []assertSite) []*ssa.BasicBlock {
	var out []*ssa.BasicBlock
	for _, a := range as {
		for _, e := range a.OkEdges {
			out = append(out, e.From.Succs[e.Succ])
		}
	}
	return out
}

// requireGuardFrom: like requireGuard but the search starts at the given blocks (e.g. "a message was
// asserted to be a MsgEthereumTx") instead of the function entry.
func requireGuardFrom(r *Run, rule, inst string, fn *ssa.Function, starts []*ssa.BasicBlock, m condMatch, bypass []Edge, target func(ssa.Instruction) bool, okMsg, badMsg string) bool {
	P := r.P
	pass, _ := guardPassEdges(fn, m)
	where := P.Pos(fnPos(fn))
	if len(pass) == 0 || len(starts) == 0 {
		r.Bad(rule, inst, where, badMsg+" (the check is absent)")
		return false
	}
	del := edgeSet(append(append([]Edge{}, pass...), bypass...))
	for _, sb := range starts {
		if w := (PathQuery{Fn: fn, StartBlock: sb, Target: target, DelEdge: del}).Search(); w != nil {
			r.Bad(rule, inst, where, badMsg, P.witness(w)...)
			return false
		}
	}
	r.OK(rule, inst, where, okMsg)
	return true
}

// checkParamsRewrites (C03 R14): a module's parameter set rebuilt field by field keeps every field's namesake.
func checkParamsRewrites(r *Run, rule string) {
	P := r.P
	r.Rule(rule, "TABLE.parameter-rewrites-keep-their-namesakes: whether a signature without a chain id is accepted (AllowUnprotectedTxs), which denomination the EVM mints, which precompiles are active — are fields of stored parameter sets, and upgrade handlers and store migrations rewrite those sets. Wherever non-test Haqq code stores into field F of a struct named Params a value read from another value of the same Params type, it is read from that value's field F: a rebuilt set with one copy-paste slip (AllowUnprotectedTxs: stored.EnableCall) passes validation, keeps every test green and silently switches replay protection off at the upgrade height")
	n := 0
	for _, fn := range P.Funcs {
		if isTestSupport(P, fn) || fn.Synthetic != "" || !isHaqqPath(fnPkgPath(fn)) || strings.Contains(fnPkgPath(fn), "/testutil") || isGeneratedFile(P.FileOf(fnPos(outermost(fn)))) {
			continue
		}
		seen := map[string]int{}
		eachInstr(fn, func(in ssa.Instruction) {
			st, ok := in.(*ssa.Store)
			if !ok {
				return
			}
			fa, ok := st.Addr.(*ssa.FieldAddr)
			if !ok {
				return
			}
			sn, f, ok := fieldOfAddr(st.Addr)
			if !ok || sn != "Params" {
				return
			}
			pt := deref(fa.X.Type())
			same, namesake := false, false
			backSlice(st.Val).Any(func(v ssa.Value) bool {
				switch x := v.(type) {
				case *ssa.FieldAddr:
					if types.Identical(deref(x.X.Type()), pt) && stripValue(x.X) != stripValue(fa.X) {
						same = true
						if _, ff, ok := fieldOfAddr(x); ok && ff == f {
							namesake = true
						}
					}
				case *ssa.Field:
					if types.Identical(x.X.Type(), pt) {
						same = true
						if _, ff, ok := fieldOfValue(x); ok && ff == f {
							namesake = true
						}
					}
				}
				return false
			})
			if !same {
				return
			}
			n++
			seen[f]++
			r.Check(namesake, rule, fmt.Sprintf("%s#Params.%s-%d-from-its-namesake", fnID(fn), f, seen[f]), P.Pos(instrPos(in)), "copied from the same field of the source parameter set",
				"a parameter set is rebuilt with field "+f+" taken from another field of the stored set: the rewritten parameters differ from the stored ones in a field the rewrite was not meant to touch")
		})
	}
	r.Count(rule+" parameter fields copied between sets of the same type", n)
}

// fnOnlyPanics: the function has no return instruction (every path ends in a panic).
func fnOnlyPanics(fn *ssa.Function) bool {
	hasRet := false
	eachInstr(fn, func(in ssa.Instruction) {
		if _, ok := in.(*ssa.Return); ok {
			hasRet = true
		}
	})
	return !hasRet
}
