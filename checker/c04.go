package main

import (
	"sort"
	"go/token"
	"go/types"
	"fmt"
	"strings"

	"golang.org/x/tools/go/ssa"
)

func init() {
	register(&propDef{
		ID:  "C04",
		Run: runC04,
		Explanation: "Static analysis of every transaction handler of the wired stateful precompiles (resolved from AvailablePrecompiles and each Run switch): " +
			"(R1) the Cosmos-side effect is reachable only over edges on which the account named in calldata equals the signer (origin) or the calling contract; " +
			"(R2) staking/ICS-20 effects are preceded by a successful grant check unless caller==origin; (R3) and followed by the grant update on every success path unless caller==origin; " +
			"(R4) grants written by approve/revoke/increase/decrease use the signer as granter, never a calldata value; (R5) check and update use the same (grantee, granter) pair.",
		Assumptions: []string{"authz Accept() arithmetic of cosmos-sdk/ibc-go reduces a limited grant by exactly the amount", "evm.Origin is the recovered signer (C03)"},
		Declined:    []string{"exact allowance arithmetic ('reduced by exactly the amount, never overspent') — SDK StakeAuthorization/TransferAuthorization.Accept"},
		Thorough:    wholeProgramEffectFilter,
	})
}

func isAuthzGrantWrite(ci CallInfo) bool {
	return (ci.Name == "SaveGrant" || ci.Name == "DeleteGrant") && pathHasSuffix(ci.PkgPath, "x/authz/keeper")
}

type handlerKind int

const (
	hkQuery handlerKind = iota
	hkAuthorization
	hkSpend
)

func classifyHandler(h *pcHandler) (handlerKind, []effectSite) {
	if h.Fn == nil {
		return hkQuery, nil
	}
	sites := effectSites(h.Fn, 3, map[*ssa.Function]bool{})
	if len(sites) == 0 {
		return hkQuery, nil
	}
	for _, s := range sites {
		if !isAuthzGrantWrite(s.Info) {
			return hkSpend, sites
		}
	}
	return hkAuthorization, sites
}

// grant check / update vocabulary

func isBaseGrantCheck(ci CallInfo) bool {
	return ci.Name == "CheckAuthzAndAllowanceForGranter" && pathHasSuffix(ci.PkgPath, "precompiles/authorization")
}

// grantCheckWrapperOK: W has a contract and an origin parameter; after deleting W's caller==origin
// edges every success exit passes CheckAuthzExists and an Accept (AcceptGrant / Authorization.Accept), both error-checked.
func grantCheckWrapperOK(W *ssa.Function) bool {
	if W == nil || W.Blocks == nil {
		return false
	}
	hp := handlerParams(W)
	if hp.Contract == nil || hp.Origin == nil {
		return false
	}
	eq, _ := callerEqOriginEdges(W)
	del := edgeSet(eq)
	exists := isCallMatching(func(ci CallInfo) bool {
		return (ci.Name == "CheckAuthzExists" || isBaseGrantCheck(ci)) && errHandled(ci.Instr)
	})
	accept := isCallMatching(func(ci CallInfo) bool {
		return (ci.Name == "AcceptGrant" || ci.Name == "Accept" || isBaseGrantCheck(ci)) && errHandled(ci.Instr)
	})
	if w := (PathQuery{Fn: W, Block: exists, Target: isSuccessExit, DelEdge: del}).Search(); w != nil {
		return false
	}
	if w := (PathQuery{Fn: W, Block: accept, Target: isSuccessExit, DelEdge: del}).Search(); w != nil {
		return false
	}
	return true
}

func grantUpdateWrapperOK(W *ssa.Function) bool {
	if W == nil || W.Blocks == nil {
		return false
	}
	hp := handlerParams(W)
	if hp.Contract == nil || hp.Origin == nil {
		return false
	}
	eq, _ := callerEqOriginEdges(W)
	upd := isCallMatching(func(ci CallInfo) bool {
		return ci.Name == "UpdateGrant" || isAuthzGrantWrite(ci)
	})
	return PathQuery{Fn: W, Block: upd, Target: isSuccessExit, DelEdge: edgeSet(eq)}.Search() == nil
}

func runC04(r *Run) {
	P := r.P
	r.Rule("R1", "PATH.identity-guard: after deleting the edges on which (origin | contract.CallerAddress) == <address decoded from calldata>, no Cosmos-side effect call of a spend handler is reachable from its entry")
	r.Rule("R2", "PATH.grant-before-spend (staking, ics20): with the caller==origin edges deleted, every path to the effect passes an error-checked grant check (CheckAuthzAndAllowanceForGranter, or a wrapper whose own non-bypass success paths pass CheckAuthzExists and Accept)")
	r.Rule("R3", "PATH.grant-update-after-spend (staking, ics20): with the caller==origin edges deleted, every success exit after the effect passes an error-checked grant update (UpdateStakingAuthorization / UpdateGrantIfNeeded-like wrapper)")
	r.Rule("R4", "FLOW.granter: for every SaveGrant/DeleteGrant reachable from an approve/revoke/increase/decrease handler, the granter argument traces back (through helper parameters) only to evm.Origin")
	r.Rule("R6", "PATH.accept-on-spend (staking, ics20): with the caller==origin edges deleted, no success exit of a spend handler is reachable without an error-checked Authorization.Accept(ctx, msg) — directly or through helpers all of whose (non-bypass) success paths call it; Accept is where the grant's validator/channel allow-list and limits are enforced")
	r.Rule("R7", "FLOW.decoder-coherence: the address an argument decoder returns (the one R1 compares with signer/caller) and the message it returns depend on each other")
	r.Rule("R5", "FLOW.grant-identity: grant check and grant update of a handler receive the same grantee (contract.CallerAddress) and the same granter value")

	models := wiredPrecompiles(r)
	nSpend, nAuth := 0, 0
	callers := staticCallersIn(P, func(p string) bool { return strings.Contains(p, "/precompiles/") })
	authReach := map[*ssa.Function]bool{} // functions reachable from authorization handlers
	for _, m := range models {
		if !m.Stateful {
			continue
		}
		for _, h := range m.Handlers {
			if !h.IsTx {
				continue
			}
			if h.Fn == nil {
				r.Bad("R1", m.Rel+"#"+h.Method+"/handler", P.Pos(instrPos(h.CaseBlk.Instrs[0])), "transaction method has no resolvable handler call in Run")
				continue
			}
			kind, sites := classifyHandler(h)
			inst := fnID(h.Fn)
			where := P.Pos(fnPos(h.Fn))
			hp := handlerParams(h.Fn)
			switch kind {
			case hkAuthorization:
				nAuth++
				markReach(h.Fn, authReach, 4)
			case hkSpend:
				nSpend++
				// ---- R1 ----
				if hp.Origin == nil || hp.Args == nil {
					r.Bad("R1", inst+"#identity-guard", where, "spend handler has no origin/args parameters; the identity of the named account cannot be checked against the signer")
					continue
				}
				isIdentity := func(v ssa.Value) bool {
					return stripValue(v) == ssa.Value(hp.Origin) || isCallerAddrLoad(v)
				}
				eq, _ := condEdges(h.Fn, func(x, y ssa.Value) bool {
					if !isIdentity(x) || isIdentity(y) {
						return false
					}
					if !(namedName(y.Type()) == "Address") {
						return false
					}
					ys := backSlice(y)
					// the compared address is the one decoded from calldata itself (conversions only): an address looked
					// up in chain state under the decoded one (withdraw address, operator, ...) is somebody else's
					if sliceHasKeeperCall(ys) {
						return false
					}
					return ys.Has(hp.Args)
				})
				del := edgeSet(eq)
				for i, s := range sites {
					if isAuthzGrantWrite(s.Info) {
						continue
					}
					call := s.Call
					if call.Parent() != h.Fn {
						continue // nested closure; the enclosing call is what we guard
					}
					oi := fmt.Sprintf("%s#identity-guard/%s-%d", inst, s.Info.Name, i+1)
					w := PathQuery{Fn: h.Fn, Target: func(in ssa.Instruction) bool { return in == ssa.Instruction(call) }, DelEdge: del}.Search()
					r.Check(w == nil, "R1", oi, P.Pos(instrPos(call)),
						fmt.Sprintf("effect %s reachable only where the named account equals signer or caller (%d equality edges)", s.Info.String(), len(eq)),
						fmt.Sprintf("Cosmos-side effect %s is reachable on a path where the account named in calldata was never proven equal to the signer (origin) or the calling contract", s.Info.String()), P.witness(w)...)
				}
				// ---- R7: the decoder's returned address belongs to the message it built ----
				for _, s := range sites {
					if isAuthzGrantWrite(s.Info) || s.Call.Parent() != h.Fn {
						continue
					}
					if ex, ok := stripValue(argN(s.Call, 1)).(*ssa.Extract); ok {
						if dc, ok := ex.Tuple.(*ssa.Call); ok && dc.Call.StaticCallee() != nil && strings.Contains(fnPkgPath(dc.Call.StaticCallee()), "/precompiles/") {
							decoderCoherent(r, "R7", dc.Call.StaticCallee())
						}
					}
				}
				// ---- R2/R3/R5 for staking and ics20 ----
				if strings.HasSuffix(m.Rel, "/staking") || strings.HasSuffix(m.Rel, "/ics20") {
					if hp.Contract == nil {
						r.Bad("R2", inst+"#grant-before-spend", where, "handler ignores the contract parameter: it cannot distinguish a contract caller from the signer, so no grant is required from a contract the signer calls")
						r.Bad("R3", inst+"#grant-update-after-spend", where, "handler ignores the contract parameter: a grant can never be consumed")
						continue
					}
					beq, _ := callerEqOriginEdges(h.Fn)
					bdel := edgeSet(beq)
					var checkCall, updCall ssa.CallInstruction
					isCheck := isCallMatching(func(ci CallInfo) bool {
						ok := false
						if isBaseGrantCheck(ci) {
							ok = isCallerAddrLoad(argN(ci.Instr, 2))
						} else if ci.Static != nil && strings.Contains(fnPkgPath(ci.Static), "/precompiles/") && grantCheckWrapperOK(ci.Static) {
							ok = passesParam(ci.Instr, hp.Contract) && passesParam(ci.Instr, hp.Origin)
						}
						if ok && errHandled(ci.Instr) {
							checkCall = ci.Instr
							return true
						}
						return false
					})
					isUpdate := isCallMatching(func(ci CallInfo) bool {
						ok := false
						if ci.Name == "UpdateStakingAuthorization" && ci.Static != nil {
							ok = isCallerAddrLoad(argN(ci.Instr, 1))
						} else if ci.Static != nil && strings.Contains(fnPkgPath(ci.Static), "/precompiles/") && grantUpdateWrapperOK(ci.Static) {
							ok = passesParam(ci.Instr, hp.Contract) && passesParam(ci.Instr, hp.Origin)
						}
						if ok && errHandled(ci.Instr) {
							updCall = ci.Instr
							return true
						}
						return false
					})
					for i, s := range sites {
						if isAuthzGrantWrite(s.Info) || s.Call.Parent() != h.Fn {
							continue
						}
						call := s.Call
						isEff := func(in ssa.Instruction) bool { return in == ssa.Instruction(call) }
						w := PathQuery{Fn: h.Fn, Block: isCheck, Target: isEff, DelEdge: bdel}.Search()
						r.Check(w == nil, "R2", fmt.Sprintf("%s#grant-before-spend/%s-%d", inst, s.Info.Name, i+1), P.Pos(instrPos(call)),
							"grant checked before the effect unless caller==origin",
							"the effect is reachable with caller != origin without a successful grant check (a contract the signer calls can spend the signer's stake/funds without an authorization)", P.witness(w)...)
						if (PathQuery{Fn: h.Fn, Target: isEff, DelEdge: bdel}).Search() == nil {
							// the effect cannot be reached at all with caller != origin: nothing to update
							r.OK("R3", fmt.Sprintf("%s#grant-update-after-spend/%s-%d", inst, s.Info.Name, i+1), P.Pos(instrPos(call)), "effect unreachable with caller != origin (handler rejects contract callers)")
							continue
						}
						w = PathQuery{Fn: h.Fn, Start: call, Block: isUpdate, Target: isSuccessExit, DelEdge: bdel}.Search()
						r.Check(w == nil, "R3", fmt.Sprintf("%s#grant-update-after-spend/%s-%d", inst, s.Info.Name, i+1), P.Pos(instrPos(call)),
							"grant updated after the effect unless caller==origin",
							"a success exit is reachable after the effect with caller != origin without updating the grant (a limited grant is not reduced and can be overspent)", P.witness(w)...)
					}
					// R6
					acceptMemo := map[*ssa.Function]bool{}
					isAcceptEv := acceptEvent(acceptMemo, 3)
					w6 := PathQuery{Fn: h.Fn, Block: isAcceptEv, Target: isSuccessExit, DelEdge: bdel}.Search()
					r.Check(w6 == nil, "R6", inst+"#accept-on-spend", where, "every success path with caller != origin passes Authorization.Accept",
						"with caller != origin the handler can succeed without calling Authorization.Accept on the grant: the grant's allow-list / limit is not enforced for this spend", P.witness(w6)...)
					// R5
					if checkCall != nil && updCall != nil {
						ci1, ci2 := callInfo(checkCall), callInfo(updCall)
						same := false
						if isBaseGrantCheck(ci1) && ci2.Name == "UpdateStakingAuthorization" {
							same = isCallerAddrLoad(argN(checkCall, 2)) && isCallerAddrLoad(argN(updCall, 1)) && stripValue(argN(checkCall, 3)) == stripValue(argN(updCall, 2))
						} else {
							same = passesParam(checkCall, hp.Contract) && passesParam(updCall, hp.Contract) && passesParam(checkCall, hp.Origin) && passesParam(updCall, hp.Origin)
						}
						r.Check(same, "R5", inst+"#grant-identity", P.Pos(instrPos(updCall)), "check and update address the same (grantee, granter) grant",
							"the grant that is checked and the grant that is updated are addressed by different (grantee, granter) values")
					}
				}
			}
		}
	}
	r.Floor("R1", "spend handlers (staking+distribution+ics20)", nSpend, 10)
	r.Floor("R4", "authorization handlers", nAuth, 8)

	// ---- R4 ----
	nGW := 0
	for _, fn := range P.Funcs {
		if !strings.Contains(fnPkgPath(fn), "/precompiles/") || isTestSupport(P, fn) || fn.Synthetic != "" {
			continue
		}
		if !authReach[outermost(fn)] {
			continue
		}
		eachCall(fn, func(ci CallInfo) {
			if !isAuthzGrantWrite(ci) {
				return
			}
			nGW++
			granter := argN(ci.Instr, 2)
			roots := valueRoots(P, fn, granter, 5, callers)
			ok := len(roots) > 0
			for k := range roots {
				if k != "evm.Origin" {
					ok = false
				}
			}
			r.Check(ok, "R4", fmt.Sprintf("%s#%s/granter", fnID(fn), ci.Name), P.Pos(instrPos(ci.Instr)),
				"granter traces back to evm.Origin only",
				fmt.Sprintf("the granter of a grant written by an authorization method derives from %v — it must be the transaction signer (evm.Origin) only, otherwise anyone can create or alter grants on behalf of another account", sortedKeys(roots)))
		})
	}
	r.Floor("R4", "grant writes reachable from authorization handlers", nGW, 6)

	// ---------- R9 ----------
	r.Rule("R9", "PATH.limit-before-effect: the grant check that staking spend handlers run before the Cosmos-side effect (every precompiles/authorization function that reads the grant with GetAuthorization and returns a *StakeAuthorization) returns success only over the edge on which the grant has no limit (MaxTokens == nil) or the requested amount is not greater than MaxTokens.Amount — Accept after the effect rejects an overspend too, but only after the message server has already moved the funds, which persists when the calling contract swallows the failure (C05)")
	nLim := 0
	for _, fn := range P.Funcs {
		if !pathHasSuffix(fnPkgPath(fn), "precompiles/authorization") || fn.Synthetic != "" || fn.Parent() != nil || isTestSupport(P, fn) {
			continue
		}
		res := fn.Signature.Results()
		retStake := false
		for i := 0; i < res.Len(); i++ {
			if namedName(res.At(i).Type()) == "StakeAuthorization" {
				retStake = true
			}
		}
		if !retStake || len(findCalls(fn, anyMethod("GetAuthorization"))) == 0 {
			continue
		}
		nLim++
		isMaxTokens := func(v ssa.Value) bool {
			return backSlice(v).HasField("StakeAuthorization", "MaxTokens")
		}
		// edges on which the limit cannot be exceeded
		nilEq, _ := condEdges(fn, func(x, y ssa.Value) bool { return isMaxTokens(x) && isNilConst(y) })
		within, _ := guardPassEdges(fn, func(cond ssa.Value) (bool, bool) {
			c, ok := cond.(*ssa.Call)
			if !ok {
				return false, false
			}
			ci := callInfo(c)
			args := callArgs(c)
			if len(args) != 2 {
				return false, false
			}
			amtFirst := backSlice(args[0]).HasParam("amount") && isMaxTokens(args[1])
			limFirst := isMaxTokens(args[0]) && backSlice(args[1]).HasParam("amount")
			switch {
			case ci.Name == "GT" && amtFirst, ci.Name == "LT" && limFirst:
				return false, true // passes on the false edge
			case ci.Name == "LTE" && amtFirst, ci.Name == "GTE" && limFirst:
				return true, true
			}
			return false, false
		})
		inst := fnID(fn) + "#amount-within-limit"
		if len(within) == 0 {
			r.Bad("R9", inst, P.Pos(fnPos(fn)), "the grant check no longer compares the requested amount with the grant's MaxTokens: an overspend is only rejected by Accept after the staking message has executed")
			continue
		}
		w := PathQuery{Fn: fn, Target: isSuccessExit, DelEdge: edgeSet(append(append([]Edge{}, nilEq...), within...))}.Search()
		r.Check(w == nil, "R9", inst, P.Pos(fnPos(fn)), "success only where MaxTokens == nil or amount <= MaxTokens.Amount",
			"the grant check can succeed without having compared the requested amount with the grant's limit", P.witness(w)...)
	}
	r.Floor("R9", "grant checks returning a StakeAuthorization", nLim, 1)

	// ---------- R10 ----------
	r.Rule("R10", "FLOW.grant-type-matches-message: in a staking spend handler every grant check and grant update is keyed by the type URL of the handler's own native message — the URL argument is a load of the package variable initialised with sdk.MsgTypeURL(&T{}) where T is the message type the handler's decoder returns; an approval given for one message type (delegate) never authorises another (cancel unbonding, undelegate, redelegate)")
	{
		// package variables initialised with MsgTypeURL(&T{})
		urlVar := map[*ssa.Global]string{}
		for _, fn := range P.Funcs {
			if !strings.Contains(fnPkgPath(fn), "/precompiles/") || fn.Name() != "init" {
				continue
			}
			eachInstr(fn, func(in ssa.Instruction) {
				st, ok := in.(*ssa.Store)
				if !ok {
					return
				}
				g, ok := st.Addr.(*ssa.Global)
				if !ok {
					return
				}
				c, ok := st.Val.(*ssa.Call)
				if !ok || callInfo(c).Name != "MsgTypeURL" || len(c.Call.Args) != 1 {
					return
				}
				if mi, ok := c.Call.Args[0].(*ssa.MakeInterface); ok {
					urlVar[g] = namedName(deref(mi.X.Type()))
				}
			})
		}
		nG := 0
		for _, m := range models {
			if m.Rel != "precompiles/staking" {
				continue
			}
			for _, h := range m.Handlers {
				if h.Fn == nil || !h.IsTx {
					continue
				}
				// message type from the decoder
				msgType := ""
				eachInstr(h.Fn, func(in ssa.Instruction) {
					c, ok := in.(*ssa.Call)
					if !ok || c.Call.StaticCallee() == nil || !strings.Contains(fnPkgPath(c.Call.StaticCallee()), "/precompiles/") {
						return
					}
					res := c.Call.StaticCallee().Signature.Results()
					if res.Len() >= 2 && strings.HasPrefix(namedName(deref(res.At(0).Type())), "Msg") && msgType == "" {
						msgType = namedName(deref(res.At(0).Type()))
					}
				})
				eachCall(h.Fn, func(ci CallInfo) {
					if ci.Name != "CheckAuthzAndAllowanceForGranter" && ci.Name != "UpdateStakingAuthorization" {
						return
					}
					var urlArg ssa.Value
					for _, a := range ci.Instr.Common().Args {
						if bt, ok := a.Type().Underlying().(*types.Basic); ok && bt.Kind() == types.String {
							urlArg = a
						}
					}
					if urlArg == nil || msgType == "" {
						return
					}
					nG++
					okURL := false
					if u, ok := stripValue(urlArg).(*ssa.UnOp); ok && u.Op == token.MUL {
						if g, ok := u.X.(*ssa.Global); ok && urlVar[g] == msgType {
							okURL = true
						}
					}
					r.Check(okURL, "R10", fmt.Sprintf("%s#%s/type-url", fnID(h.Fn), ci.Name), P.Pos(instrPos(ci.Instr)), "keyed by the type URL of "+msgType,
						"a grant check/update in the handler of "+msgType+" is keyed by something other than the type URL of "+msgType+": an approval given for a different message type authorises (or is consumed by) this operation")
				})
			}
		}
		r.Floor("R10", "grant checks/updates keyed by a message type URL in staking handlers", nG, 8)
	}

	// ---------- R11 ----------
	r.Rule("R11", "FLOW.grant-update-keeps-expiration: a precompile function that re-saves a grant after it was used or adjusted (it receives the grant's expiration as a parameter or reads it with GetAuthorization) passes that same expiration to SaveGrant — nil means 'never expires', so a re-saved grant with a dropped expiration outlives the approval the signer gave")
	{
		nS := 0
		for _, fn := range P.Funcs {
			if !strings.Contains(fnPkgPath(fn), "/precompiles/") || isTestSupport(P, fn) || fn.Synthetic != "" {
				continue
			}
			var expParam *ssa.Parameter
			for _, p := range fn.Params {
				if p.Name() == "expiration" {
					expParam = p
				}
			}
			readsGrant := len(findCalls(fn, anyMethod("GetAuthorization"))) > 0
			if expParam == nil && !readsGrant {
				continue
			}
			eachCall(fn, func(ci CallInfo) {
				if ci.Name != "SaveGrant" {
					return
				}
				args := callArgs(ci.Instr)
				exp := args[len(args)-1]
				nS++
				sl := backSlice(exp)
				okExp := (expParam != nil && sl.Has(expParam)) || sl.HasCall(func(g CallInfo) bool { return g.Name == "GetAuthorization" })
				r.Check(okExp && !isNilConst(stripValue(exp)), "R11", fmt.Sprintf("%s#SaveGrant-expiration", fnID(fn)), P.Pos(instrPos(ci.Instr)), "re-saved with the grant's own expiration",
					"a used/adjusted grant is re-saved with an expiration that is not the grant's own (nil = never expires): a time-limited approval becomes permanent after its first partial use")
			})
		}
		r.Floor("R11", "SaveGrant calls that re-save an existing grant", nS, 4)
	}

	// ---------- R13 ----------
	r.Rule("R13", "FLOW.grantee-and-granter-keep-their-places: in every precompile function that receives parameters named grantee and granter, each call whose callee has parameters named grantee and granter (SaveGrant, DeleteGrant, GetAuthorization, CheckAuthzExists, the create/update helpers) receives the value of its own grantee parameter in the grantee position and the value of its own granter parameter in the granter position — a swapped pair addresses the reverse grant: the signer's limited grant is never reduced and a grant from the contract to the signer appears")
	{
		nP := 0
		for _, fn := range P.Funcs {
			if !strings.Contains(fnPkgPath(fn), "/precompiles/") || isTestSupport(P, fn) || fn.Synthetic != "" {
				continue
			}
			var pe, pr *ssa.Parameter
			for _, p := range fn.Params {
				switch p.Name() {
				case "grantee":
					pe = p
				case "granter":
					pr = p
				}
			}
			if pe == nil || pr == nil {
				continue
			}
			eachCall(fn, func(ci CallInfo) {
				sig := ci.Instr.Common().Signature()
				if sig == nil {
					return
				}
				ie, ir := -1, -1
				for i := 0; i < sig.Params().Len(); i++ {
					switch sig.Params().At(i).Name() {
					case "grantee":
						ie = i
					case "granter":
						ir = i
					}
				}
				if ie < 0 || ir < 0 {
					return
				}
				args := ci.Instr.Common().Args
				if !ci.Instr.Common().IsInvoke() && sig.Recv() != nil {
					args = args[1:]
				}
				if ie >= len(args) || ir >= len(args) {
					return
				}
				nP++
				se, sr := backSlice(args[ie]), backSlice(args[ir])
				ok := se.Has(pe) && !se.Has(pr) && sr.Has(pr) && !sr.Has(pe)
				r.Check(ok, "R13", fmt.Sprintf("%s#%s/grantee-granter", fnID(fn), ci.Name), P.Pos(instrPos(ci.Instr)), "grantee and granter passed in their own positions",
					"the call receives this function's grantee/granter in the wrong positions (or values derived from something else): the grant that is read or written is not the (grantee, granter) grant the function was asked to handle")
			})
		}
		r.Floor("R13", "calls passing a (grantee, granter) pair on", nP, 20)
	}

	// ---------- R14 ----------
	r.Rule("R14", "TABLE.grant-scope-carried-over: wherever a precompile builds the native value that scopes a grant from its ABI arguments (ibc-go transfertypes.Allocation: port, channel, spend limit, allow list; and the ABI-side cmn.ICS20Allocation on the way back) every field of the struct is assigned — a field left at its zero value is a restriction the signer asked for and did not get (an empty allow list means 'any receiver')")
	{
		nLit := 0
		for _, fn := range P.Funcs {
			if !strings.Contains(fnPkgPath(fn), "/precompiles/") || isTestSupport(P, fn) || fn.Synthetic != "" {
				continue
			}
			type lit struct {
				st     *types.Struct
				name   string
				fields map[string]bool
				pos    token.Pos
			}
			lits := map[ssa.Value]*lit{}
			eachInstr(fn, func(in ssa.Instruction) {
				st, ok := in.(*ssa.Store)
				if !ok {
					return
				}
				fa, ok := st.Addr.(*ssa.FieldAddr)
				if !ok {
					return
				}
				pt, ok := fa.X.Type().Underlying().(*types.Pointer)
				if !ok {
					return
				}
				n := namedName(pt.Elem())
				if !(n == "Allocation" && strings.HasSuffix(namedPkgPath(pt.Elem()), "transfer/types")) && n != "ICS20Allocation" {
					return
				}
				sst, ok := pt.Elem().Underlying().(*types.Struct)
				if !ok {
					return
				}
				l := lits[fa.X]
				if l == nil {
					l = &lit{st: sst, name: n, fields: map[string]bool{}, pos: in.Pos()}
					lits[fa.X] = l
				}
				l.fields[sst.Field(fa.Field).Name()] = true
			})
			var keys []ssa.Value
			for k := range lits {
				keys = append(keys, k)
			}
			sort.Slice(keys, func(i, j int) bool { return lits[keys[i]].pos < lits[keys[j]].pos })
			for i, k := range keys {
				l := lits[k]
				// a base that only receives a single field write is an update of an existing value, not a construction
				if len(l.fields) < 2 {
					continue
				}
				nLit++
				var missing []string
				for j := 0; j < l.st.NumFields(); j++ {
					if f := l.st.Field(j).Name(); !l.fields[f] && !strings.HasPrefix(f, "XXX_") {
						missing = append(missing, f)
					}
				}
				r.Check(len(missing) == 0, "R14", fmt.Sprintf("%s#%s-literal-%d/all-fields", fnID(fn), l.name, i+1), P.Pos(l.pos), "every field assigned",
					fmt.Sprintf("the %s built here leaves %v at the zero value: that part of the grant's scope (what the signer restricted the grantee to) is silently dropped — a contract holding the grant can act outside it", l.name, missing))
			}
		}
		r.Floor("R14", "constructions of grant-scope structs in precompiles", nLit, 2)
	}

	// ---------- R12 ----------
	r.Rule("R12", "PATH.allocation-matches-port-and-channel: a precompile function that selects one allocation of a transfer grant (it ranges over []Allocation and returns an index / spend limit) reaches its success exit only over the edge SourcePort == sourcePort and only over the edge SourceChannel == sourceChannel — an increase, decrease or spend addressed to one channel never lands on another channel's allocation")
	{
		nA := 0
		for _, fn := range P.Funcs {
			if !pathHasSuffix(fnPkgPath(fn), "precompiles/ics20") || fn.Synthetic != "" || fn.Parent() != nil || isTestSupport(P, fn) {
				continue
			}
			takes := false
			for _, p := range fn.Params {
				if sl, ok := p.Type().Underlying().(*types.Slice); ok && namedName(sl.Elem()) == "Allocation" {
					takes = true
				}
			}
			var portP, chanP *ssa.Parameter
			for _, p := range fn.Params {
				if p.Name() == "sourcePort" {
					portP = p
				}
				if p.Name() == "sourceChannel" {
					chanP = p
				}
			}
			if !takes || portP == nil || chanP == nil {
				continue
			}
			nA++
			for _, which := range []struct {
				p     *ssa.Parameter
				field string
			}{{portP, "SourcePort"}, {chanP, "SourceChannel"}} {
				which := which
				eq, _ := condEdges(fn, func(x, y ssa.Value) bool {
					return backSlice(x).HasField("Allocation", which.field) && stripValue(y) == ssa.Value(which.p) ||
						backSlice(y).HasField("Allocation", which.field) && stripValue(x) == ssa.Value(which.p)
				})
				w := PathQuery{Fn: fn, Target: isSuccessExit, DelEdge: edgeSet(eq)}.Search()
				r.Check(len(eq) > 0 && w == nil, "R12", fnID(fn)+"#matches-"+which.field, P.Pos(fnPos(fn)), "an allocation is selected only where its "+which.field+" equals the requested one",
					"an allocation can be selected although its "+which.field+" differs from the requested one (the two comparisons are not both required): a grant change or spend meant for one channel is applied to another channel's allocation", P.witness(w)...)
			}
		}
		r.Floor("R12", "allocation selectors in precompiles/ics20", nA, 1)
	}

	// ---------- R8 ----------
	r.Rule("R8", "OWN/SHAPE.limit-stays-limited: precompile code changes the limit of an existing staking grant only through `MaxTokens.Amount = MaxTokens.Amount.Sub(coin.Amount)` (decreaseAllowance) and `.Add(coin.Amount)` (increaseAllowance); it never stores the MaxTokens pointer itself — a nil MaxTokens means an unlimited grant, so replacing the pointer can turn a used-up limit into no limit")
	nAmt := 0
	for _, fn := range P.Funcs {
		if !strings.Contains(fnPkgPath(fn), "/precompiles/") || isTestSupport(P, fn) || fn.Synthetic != "" {
			continue
		}
		eachInstr(fn, func(in ssa.Instruction) {
			st, ok := in.(*ssa.Store)
			if !ok {
				return
			}
			sn, f, ok := fieldOfAddr(st.Addr)
			if !ok {
				return
			}
			if sn == "StakeAuthorization" && f == "MaxTokens" {
				r.Bad("R8", fnID(fn)+"#stores-MaxTokens-pointer", P.Pos(instrPos(in)), "precompile code replaces the MaxTokens pointer of a staking grant: a nil (or fresh) pointer changes the kind of the limit — nil is 'unlimited' — instead of adjusting the remaining amount")
				return
			}
			// MaxTokens.Amount stores: &(*(&authz.MaxTokens)).Amount
			if sn == "Coin" && f == "Amount" {
				if fa, ok := st.Addr.(*ssa.FieldAddr); ok && isFieldLoad(fa.X, "StakeAuthorization", "MaxTokens") {
					nAmt++
					c, isC := stripValue(st.Val).(*ssa.Call)
					want := map[string]string{"decreaseAllowance": "Sub", "increaseAllowance": "Add"}[fn.Name()]
					okShape := isC && want != "" && callInfo(c).Name == want
					if okShape {
						a := c.Call.Args
						okShape = len(a) == 2 && backSlice(a[0]).HasField("StakeAuthorization", "MaxTokens") && backSlice(a[1]).HasParam("coin") && !backSlice(a[1]).HasField("StakeAuthorization", "MaxTokens")
					}
					r.Check(okShape, "R8", fnID(fn)+"#limit-adjusted", P.Pos(instrPos(in)), "limit := old limit "+want+" coin.Amount", "the remaining limit of a staking grant is not adjusted as old limit ± coin.Amount (or is written from a function other than decrease/increaseAllowance)")
				}
			}
		})
	}
	r.Floor("R8", "MaxTokens.Amount adjustments", nAmt, 2)

	// ---------- R15 ----------
	r.Rule("R15", "FLOW.listed-addresses-in-canonical-spelling: StakeAuthorization.Accept matches a message's validator against the grant's allow and deny lists as strings, and bech32 has two valid spellings of every address (all lower case, all upper case). Every validator or delegator address a staking precompile constructor stores into the native message it builds is therefore the SDK address type's own String() of the parsed address (directly, or through a helper each of whose returns is such a String() or lies behind the failing edge of the parse, where ValidateBasic refuses the message) — never the calldata string as it came: with the raw string a grantee spells a denied validator in upper case and the deny list does not recognise it")
	{
		var canonical func(v ssa.Value, depth int) bool
		canonicalReturn := func(fn *ssa.Function, idx, depth int) bool {
			if fn == nil || fn.Blocks == nil || depth <= 0 {
				return false
			}
			ok, n := true, 0
			eachInstr(fn, func(in ssa.Instruction) {
				ret, isRet := in.(*ssa.Return)
				if !isRet || (errResultIndex(fn) >= 0 && classifyExit(ret) == ExitFailure) {
					return
				}
				ops := retOperands(ret)
				if idx >= len(ops) {
					ok = false
					return
				}
				n++
				op := ops[idx]
				if canonical(op, depth-1) {
					return
				}
				// the unparsed string, returned only where parsing it failed
				var edges []Edge
				eachCall(fn, func(ci CallInfo) {
					if (ci.Name == "ValAddressFromBech32" || ci.Name == "AccAddressFromBech32") && len(callArgs(ci.Instr)) > 0 && stripValue(callArgs(ci.Instr)[0]) == stripValue(op) {
						edges = append(edges, errEdges(ci.Instr)...)
					}
				})
				if len(edges) == 0 {
					ok = false
					return
				}
				// the return must not be reachable over the parse's passing side
				if w := (PathQuery{Fn: fn, Target: func(x ssa.Instruction) bool { return x == in }, DelEdge: edgeSet(edges)}).Search(); w != nil {
					ok = false
				}
			})
			return ok && n > 0
		}
		canonical = func(v ssa.Value, depth int) bool {
			v = stripValue(v)
			switch t := v.(type) {
			case *ssa.Call:
				ci := callInfo(t)
				if ci.Name == "String" && (ci.Recv == "ValAddress" || ci.Recv == "AccAddress") {
					return true
				}
				if ci.Static != nil && isHaqqPath(fnPkgPath(ci.Static)) {
					return canonicalReturn(ci.Static, 0, depth)
				}
			case *ssa.Extract:
				if c, ok := t.Tuple.(*ssa.Call); ok {
					if ci := callInfo(c); ci.Static != nil && isHaqqPath(fnPkgPath(ci.Static)) {
						return canonicalReturn(ci.Static, t.Index, depth)
					}
				}
			case *ssa.Phi:
				for _, e := range t.Edges {
					if !canonical(e, depth) {
						return false
					}
				}
				return len(t.Edges) > 0
			}
			return false
		}
		// the messages whose validator a StakeAuthorization matches against its lists: the cases of Accept's type
		// switch in the pinned SDK (tabled here; the thorough tier's W3 re-derives the table from the SDK's source)
		listed := stakeAuthzMessages
		nAddr := 0
		for _, fn := range P.Funcs {
			if !strings.HasSuffix(fnPkgPath(fn), "/precompiles/staking") || isTestSupport(P, fn) || fn.Synthetic != "" {
				continue
			}
			eachInstr(fn, func(in ssa.Instruction) {
				st, ok := in.(*ssa.Store)
				if !ok {
					return
				}
				sn, f, ok := fieldOfAddr(st.Addr)
				if !ok || !listed[sn] || !(strings.HasPrefix(f, "Validator") || strings.HasPrefix(f, "Delegator")) || !strings.HasSuffix(f, "Address") {
					return
				}
				if b, isB := st.Val.Type().Underlying().(*types.Basic); !isB || b.Kind() != types.String {
					return
				}
				nAddr++
				r.Check(canonical(st.Val, 3), "R15", fmt.Sprintf("%s#%s.%s-canonical", fnID(fn), sn, f), P.Pos(instrPos(in)), "the stored address is the address type's String()",
					"a staking precompile constructor stores an address string into "+sn+"."+f+" as it came from calldata: the allow/deny lists of a StakeAuthorization are matched as strings, so the all-upper-case spelling of a denied validator passes the grant check and the funds move to a validator the grant excludes")
			})
		}
		r.Floor("R15", "address fields of staking messages built in precompiles/staking", nAddr, 9)
	}
	r.Rule("R17", "PATH/FLOW.token-precompile-acts-for-the-caller (precompiles/erc20, to which werc20 delegates): transfer() names the frame's caller as the sender; in the common transfer routine the bank Send that needs no grant is reachable only over the passing edge of <caller>.Equals(<from>) and every other move goes through authz DispatchActions with the caller as grantee (the SDK then demands a grant from `from`, accepts it for the amount and reduces it); approve / increaseAllowance / decreaseAllowance hand the frame's caller — never the origin, never a calldata address — to whatever saves or deletes a grant as the granter")
	{
		fromCaller := func(v ssa.Value) bool {
			sl := backSlice(v)
			return sl.HasField("Contract", "CallerAddress") || sl.HasCall(func(ci CallInfo) bool { return ci.Name == "Caller" && ci.Recv == "Contract" })
		}
		if tr, ok := P.FnOK("(precompiles/erc20.Precompile).transfer"); ok {
			var sends, disp []ssa.CallInstruction
			eachCall(tr, func(ci CallInfo) {
				if ci.Name == "Send" && isCosmosEffect(ci) {
					sends = append(sends, ci.Instr)
				}
				if ci.Name == "DispatchActions" {
					disp = append(disp, ci.Instr)
				}
			})
			var fromP ssa.Value
			for _, p := range tr.Params {
				if p.Name() == "from" {
					fromP = p
				}
			}
			pass, _ := guardPassEdges(tr, func(cond ssa.Value) (bool, bool) {
				c, ok := cond.(*ssa.Call)
				if !ok || callInfo(c).Name != "Equals" || len(c.Call.Args) != 2 || fromP == nil {
					return false, false
				}
				a, b := c.Call.Args[0], c.Call.Args[1]
				return true, (fromCaller(a) && backSlice(b).Has(fromP) && !fromCaller(b)) || (fromCaller(b) && backSlice(a).Has(fromP) && !fromCaller(a))
			})
			for i, sd := range sends {
				sd := sd
				w := PathQuery{Fn: tr, Target: func(x ssa.Instruction) bool { return x == ssa.Instruction(sd) }, DelEdge: edgeSet(pass)}.Search()
				r.Check(w == nil && len(pass) > 0, "R17", fmt.Sprintf("%s#send-only-when-caller-is-the-owner-%d", fnID(tr), i+1), P.Pos(instrPos(sd)), "bank Send reachable only where the caller equals `from`",
					"the ERC-20 precompile's transfer routine can run the grant-less bank Send for a `from` that is not the calling account: transferFrom(victim, attacker, x) needs no allowance", P.witness(w)...)
			}
			for i, d := range disp {
				a := d.Common().Args
				okG := false
				for _, x := range a {
					if namedName(x.Type()) == "AccAddress" && fromCaller(x) {
						okG = true
					}
				}
				r.Check(okG, "R17", fmt.Sprintf("%s#dispatch-grantee-is-the-caller-%d", fnID(tr), i+1), P.Pos(instrPos(d)), "DispatchActions' grantee derives from contract.CallerAddress",
					"the authz dispatch of the ERC-20 precompile names a grantee that is not the calling account: the allowance of somebody else is spent")
			}
			r.Check(len(sends) >= 1 && len(disp) >= 1, "R17", fnID(tr)+"#both-routes-present", P.Pos(fnPos(tr)), "one grant-less route (owner) and one authz route", "the ERC-20 transfer routine no longer has its two routes (bank Send for the owner, authz dispatch for a spender): the analysis of who may move whose tokens is void")
		} else {
			r.Bad("R17", "anchor/erc20.transfer", "", "(precompiles/erc20.Precompile).transfer not found")
		}
		if tf, ok := P.FnOK("(precompiles/erc20.Precompile).Transfer"); ok {
			okFrom, n := true, 0
			eachCall(tf, func(ci CallInfo) {
				if ci.Static == nil || ci.Static.Name() != "transfer" {
					return
				}
				for i, p := range ci.Static.Params {
					if p.Name() == "from" && i < len(ci.Instr.Common().Args) {
						n++
						if !fromCaller(ci.Instr.Common().Args[i]) {
							okFrom = false
						}
					}
				}
			})
			r.Check(okFrom && n >= 1, "R17", fnID(tf)+"#sender-is-the-caller", P.Pos(fnPos(tf)), "transfer() passes contract.CallerAddress as `from`", "ERC-20 transfer() does not name the calling account as the sender")
		} else {
			r.Bad("R17", "anchor/erc20.Transfer", "", "(precompiles/erc20.Precompile).Transfer not found")
		}
		nG := 0
		for _, name := range []string{"Approve", "IncreaseAllowance", "DecreaseAllowance"} {
			h, ok := P.FnOK("(precompiles/erc20.Precompile)." + name)
			if !ok {
				r.Bad("R17", "anchor/erc20."+name, "", "handler not found")
				continue
			}
			bad, n := "", 0
			eachCall(h, func(ci CallInfo) {
				if ci.Static == nil || !strings.Contains(fnPkgPath(ci.Static), "/precompiles/") {
					return
				}
				for i, p := range ci.Static.Params {
					if p.Name() != "granter" {
						continue
					}
					off := 0
					if i < len(ci.Instr.Common().Args) {
						n++
						a := ci.Instr.Common().Args[i+off]
						if !fromCaller(a) && bad == "" {
							bad = ci.Name
						}
					}
				}
			})
			nG += n
			r.Check(bad == "" && n >= 1, "R17", fnID(h)+"#granter-is-the-caller", P.Pos(fnPos(h)), "every helper with a `granter` parameter receives contract.CallerAddress", "the ERC-20 "+name+" handler passes a granter that is not the calling account to "+bad+": an allowance is created or changed on somebody else's behalf")
		}
		r.Floor("R17", "granter arguments in erc20 allowance handlers", nG, 3)
	}
	r.Rule("R18", "PATH.nobody-signs-for-a-module-account: the precompiles take evm.Origin for the transaction's signer, but the erc20 module's internal EVM calls (ConvertCoin of a native-ERC20 pair: token.transfer, committed) run with the module account as origin — nobody signed for it — and the callee is third-party token code. RunSetup therefore compares evm.Origin with the erc20 module address and reaches a successful return for a transaction method only over the 'not equal' edge; otherwise a registered token's transfer() makes one extra call to staking.approve / ics20.approve and leaves an authz grant over the module account — neither the signer nor the caller — to a third party")
	if rs, ok := r.P.FnOK("(precompiles/common.Precompile).RunSetup"); ok {
		eq, _ := condEdges(rs, func(x, y ssa.Value) bool {
			isOrigin := func(v ssa.Value) bool {
				u, ok := v.(*ssa.UnOp)
				if !ok {
					return false
				}
				_, f, ok := fieldOfAddr(u.X)
				return ok && f == "Origin"
			}
			isModAddr := func(v ssa.Value) bool {
				u, ok := v.(*ssa.UnOp)
				if !ok {
					return false
				}
				g, ok := u.X.(*ssa.Global)
				return ok && g.Name() == "ModuleAddress" && g.Pkg != nil && strings.HasSuffix(g.Pkg.Pkg.Path(), "x/erc20/types")
			}
			return isOrigin(x) && isModAddr(y)
		})
		okGuard := len(eq) > 0
		if okGuard {
			// over the equal edge no successful return is reachable
			for _, e := range eq {
				succ := e.From.Succs[e.Succ]
				w := PathQuery{Fn: rs, StartBlock: succ, Target: func(in ssa.Instruction) bool {
					ret, ok := in.(*ssa.Return)
					return ok && classifyExit(ret) != ExitFailure
				}}.Search()
				if w != nil {
					okGuard = false
				}
			}
		}
		r.Check(okGuard, "R18", fnID(rs)+"#origin-is-not-the-erc20-module", r.P.Pos(fnPos(rs)), "evm.Origin == erc20 ModuleAddress leads to failure only",
			"RunSetup lets a transaction method run with the erc20 module account as origin: during a user's MsgConvertCoin of a native-ERC20 pair the token's transfer() calls staking.approve(attacker, unlimited, [MsgDelegate]) — the grant erc20-module → attacker is stored (the ERC-20 Approval monitor does not see it) and the attacker's authz MsgDelegate takes the module account from 1000aISLM to 0")
	} else {
		r.Bad("R18", "anchor/precompiles/common.RunSetup", "", "not found")
	}
	r.Rule("R16", "see C05 R9 (imported): 'reduced by exactly the amount used' includes the failed spend — the grant update is written before the native message moves anything (authz DispatchActions, the precompiles' own UpdateGrant), so every precompile Run with Cosmos-side effects executes its methods on a CacheContext branch written only on success; otherwise a failed spend that the calling contract tolerates still consumes the allowance")
	r.Import("R16/C05.", []string{"R9"}, runC05)
}

// stakeAuthzMessages: the message types (cosmos-sdk x/staking/types).StakeAuthorization.Accept handles.
var stakeAuthzMessages = map[string]bool{"MsgDelegate": true, "MsgUndelegate": true, "MsgBeginRedelegate": true, "MsgCancelUnbondingDelegation": true}

// passesParam: the call passes parameter p (unchanged) as one of its arguments.
func passesParam(c ssa.CallInstruction, p *ssa.Parameter) bool {
	if p == nil {
		return false
	}
	for _, a := range c.Common().Args {
		if stripValue(a) == ssa.Value(p) {
			return true
		}
	}
	return false
}

func markReach(fn *ssa.Function, set map[*ssa.Function]bool, depth int) {
	if fn == nil || set[fn] || fn.Blocks == nil {
		return
	}
	set[fn] = true
	if depth == 0 {
		return
	}
	for _, f := range withAnon(fn) {
		eachCall(f, func(ci CallInfo) {
			if ci.Static != nil && strings.Contains(fnPkgPath(ci.Static), "/precompiles/") {
				markReach(ci.Static, set, depth-1)
			}
		})
	}
}

// acceptEvent: a call to <Authorization>.Accept with its error checked, or to a precompile helper
// whose every success path (after deleting its own caller==origin bypass) passes such an event.
func acceptEvent(memo map[*ssa.Function]bool, depth int) func(ssa.Instruction) bool {
	var summary func(fn *ssa.Function, d int) bool
	var ev func(d int) func(ssa.Instruction) bool
	ev = func(d int) func(ssa.Instruction) bool {
		return isCallMatching(func(ci CallInfo) bool {
			if ci.Name == "Accept" && ci.Recv != "" && ci.Instr.Common().Signature().Params().Len() == 2 {
				// Accept(ctx, msg) (AcceptResponse, error)
				if errHandled(ci.Instr) {
					return true
				}
			}
			if d > 0 && ci.Static != nil && strings.Contains(fnPkgPath(ci.Static), "/precompiles/") && ci.Static.Blocks != nil {
				return summary(ci.Static, d-1) && errHandled(ci.Instr)
			}
			return false
		})
	}
	summary = func(fn *ssa.Function, d int) bool {
		if v, ok := memo[fn]; ok {
			return v
		}
		memo[fn] = false
		eq, _ := callerEqOriginEdges(fn)
		has := false
		e := ev(d)
		eachInstr(fn, func(in ssa.Instruction) {
			if e(in) {
				has = true
			}
		})
		ok := has && PathQuery{Fn: fn, Block: e, Target: isSuccessExit, DelEdge: edgeSet(eq)}.Search() == nil
		memo[fn] = ok
		return ok
	}
	return ev(depth)
}

// sliceHasKeeperCall: the slice contains the result of a call on a keeper (struct named *Keeper or a
// keeper interface) — i.e. the value was looked up in chain state.
func sliceHasKeeperCall(s *Slice) bool {
	return s.Any(func(v ssa.Value) bool {
		c, ok := v.(*ssa.Call)
		if !ok {
			return false
		}
		ci := callInfo(c)
		if !(strings.HasSuffix(ci.Recv, "Keeper") || ci.Recv == "Querier" || ci.Recv == "QueryServer") {
			return false
		}
		// only lookups that can yield an account: address-typed or raw-bytes results
		isAddrT := func(t types.Type) bool {
			switch namedName(t) {
			case "AccAddress", "ValAddress", "ConsAddress", "Address":
				return true
			}
			if sl, ok := t.Underlying().(*types.Slice); ok {
				if b, ok := sl.Elem().Underlying().(*types.Basic); ok && b.Kind() == types.Byte {
					return true
				}
			}
			return false
		}
		if tup, ok := c.Type().(*types.Tuple); ok {
			for i := 0; i < tup.Len(); i++ {
				if isAddrT(tup.At(i).Type()) {
					return true
				}
			}
			return false
		}
		return isAddrT(c.Type())
	})
}
