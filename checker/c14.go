package main

import (
	"fmt"
	"go/constant"
	"go/token"
	"go/types"
	"sort"
	"strings"

	"golang.org/x/tools/go/ssa"
)

func init() {
	register(&propDef{
		ID:  "C14",
		Run: runC14,
		Explanation: "Static (SSA/CFG/type) analysis of the structural clauses of C14: the BurnCoins override redirects exactly the gov/bonded/not-bonded module accounts, " +
			"on that branch every success path sends the same coins to the distribution account and read-add-writes the fee pool with a value depending on the burned amounts, the embedded burn is unreachable there and mandatory elsewhere; " +
			"staking and gov keepers are constructed with the overriding keeper. The numeric equality (pool grows by exactly the amount) is the SDK DecCoins arithmetic and is not decided.",
		Assumptions: []string{"cosmos-sdk bank SendCoinsFromModuleToModule and DecCoins.Add are correct", "staking/gov/slashing burn only through the bank keeper they were constructed with"},
		Declined:    []string{"numeric equality of community-pool growth and burned amount", "supply unchanged (follows from send-instead-of-burn, trusted SDK)"},
		Thorough:    wholeProgramBurnSources,
	})
}

// constOf looks up a string constant in a (dependency) package.
func (P *Prog) constOf(pkgPath, name string) (string, bool) {
	o := P.LookupObj(pkgPath, name)
	c, ok := o.(*types.Const)
	if !ok || c.Val().Kind() != constant.String {
		return "", false
	}
	return constant.StringVal(c.Val()), true
}

// stringCasesOn returns the constant strings the parameter named param is compared with (== / switch cases),
// together with the edges on which equality holds.
func stringCasesOn(fn *ssa.Function, param string) (vals []string, eq []Edge) {
	seen := map[string]bool{}
	e, _ := condEdges(fn, func(x, y ssa.Value) bool {
		p, ok := x.(*ssa.Parameter)
		if !ok || p.Name() != param {
			return false
		}
		s, ok := constString(y)
		if ok && !seen[s] {
			seen[s] = true
			vals = append(vals, s)
		}
		return ok
	})
	sort.Strings(vals)
	return vals, e
}

func runC14(r *Run) {
	P := r.P
	const bankPkg = "x/bank/keeper"
	r.Rule("R1", "TABLE: the constants BurnCoins compares moduleName with are exactly {govtypes.ModuleName, stakingtypes.BondedPoolName, stakingtypes.NotBondedPoolName}")
	r.Rule("R2", "PATH+FLOW: on the redirect branch every success exit is preceded by an error-checked SendCoinsFromModuleToModule(ctx, moduleName, distribution, amounts) and by a Set(FeePoolKey, v) on the distribution store where v depends on amounts and on Get(FeePoolKey); the embedded BurnCoins is unreachable on that branch and on every other path a success exit passes the embedded BurnCoins with the same (moduleName, amounts)")
	r.Rule("R3", "TYPE: in NewHaqq the bank keeper given to staking NewKeeper and gov NewKeeper has static type *x/bank/keeper.BaseKeeper; the distribution store key given to the override is keys[distrtypes.StoreKey]; the staking wrapper forwards its bk parameter to the SDK keeper")
	r.Rule("R4", "OWN: no Haqq call site burns with a constant module name of the redirected set through another keeper")

	fn, ok := P.FnOK("(" + bankPkg + ".BaseKeeper).BurnCoins")
	if !ok {
		r.Bad("R1", "anchor/BurnCoins", "", "x/bank/keeper.BaseKeeper.BurnCoins (the override) does not exist")
		return
	}
	where := P.Pos(fnPos(fn))
	// R1
	want := []string{}
	for _, c := range [][2]string{{"github.com/cosmos/cosmos-sdk/x/gov/types", "ModuleName"}, {"github.com/cosmos/cosmos-sdk/x/staking/types", "BondedPoolName"}, {"github.com/cosmos/cosmos-sdk/x/staking/types", "NotBondedPoolName"}} {
		v, ok := P.constOf(c[0], c[1])
		if !ok {
			r.Fail("cannot resolve constant %s.%s", c[0], c[1])
			return
		}
		want = append(want, v)
	}
	sort.Strings(want)
	got, eqEdges := stringCasesOn(fn, "moduleName")
	r.Check(strings.Join(got, ",") == strings.Join(want, ","), "R1", fnID(fn)+"#case-set", where,
		fmt.Sprintf("redirected set = %v", got), fmt.Sprintf("redirected set is %v, must be exactly %v", got, want))
	r.Count("R1 switch constants", len(got))

	// R2
	isSend := isCallMatching(func(ci CallInfo) bool {
		if ci.Name != "SendCoinsFromModuleToModule" {
			return false
		}
		c := ci.Instr
		a1, a2, a3 := argN(c, 1), argN(c, 2), argN(c, 3)
		p1, ok1 := a1.(*ssa.Parameter)
		s2, ok2 := constString(a2)
		p3, ok3 := a3.(*ssa.Parameter)
		distr, _ := P.constOf("github.com/cosmos/cosmos-sdk/x/distribution/types", "ModuleName")
		return ok1 && p1.Name() == "moduleName" && ok2 && s2 == distr && ok3 && p3.Name() == "amounts" && errHandled(c)
	})
	isFeePoolKey := func(v ssa.Value) bool {
		u, ok := v.(*ssa.UnOp)
		if !ok || u.Op != token.MUL {
			return false
		}
		g, ok := u.X.(*ssa.Global)
		return ok && g.Name() == "FeePoolKey" && pathHasSuffix(g.Pkg.Pkg.Path(), "x/distribution/types")
	}
	isDistrStore := func(v ssa.Value) bool {
		// v = GetKVStore(k.distrStoreKey) / KVStore(k.distrStoreKey)
		c, ok := v.(*ssa.Call)
		if !ok {
			return false
		}
		ci := callInfo(c)
		if ci.Name != "GetKVStore" && ci.Name != "KVStore" {
			return false
		}
		return backSlice(argN(c, 0)).HasField("BaseKeeper", "distrStoreKey")
	}
	isSet := isCallMatching(func(ci CallInfo) bool {
		if ci.Name != "Set" || !ci.Invoke {
			return false
		}
		c := ci.Instr
		if !isDistrStore(c.Common().Value) || !isFeePoolKey(argN(c, 0)) {
			return false
		}
		sl := backSlice(argN(c, 1))
		depAmounts := sl.HasParam("amounts")
		depGet := sl.Any(func(v ssa.Value) bool {
			g, ok := v.(*ssa.Call)
			if !ok {
				return false
			}
			gi := callInfo(g)
			return gi.Name == "Get" && gi.Invoke && isDistrStore(g.Call.Value) && isFeePoolKey(argN(g, 0))
		})
		return depAmounts && depGet
	})
	isEmbedded := isCallMatching(func(ci CallInfo) bool {
		if ci.Name != "BurnCoins" || !pathHasSuffix(ci.PkgPath, "cosmos-sdk/x/bank/keeper") {
			return false
		}
		c := ci.Instr
		p1, ok1 := argN(c, 1).(*ssa.Parameter)
		p2, ok2 := argN(c, 2).(*ssa.Parameter)
		return ok1 && ok2 && p1.Name() == "moduleName" && p2.Name() == "amounts"
	})
	nRedirect := 0
	for _, e := range eqEdges {
		tb := e.From.Succs[e.Succ]
		nRedirect++
		inst := fmt.Sprintf("%s#redirect-branch", fnID(fn))
		if w := (PathQuery{Fn: fn, StartBlock: tb, Block: isSend, Target: isSuccessExit}).Search(); w != nil {
			r.Bad("R2", inst+"/send", where, "a success exit of the redirect branch is reachable without an error-checked SendCoinsFromModuleToModule(moduleName → distribution, amounts)", P.witness(w)...)
		} else {
			r.OK("R2", inst+"/send", where, "coins moved to the distribution account on every success path")
		}
		if w := (PathQuery{Fn: fn, StartBlock: tb, Block: isSet, Target: isSuccessExit}).Search(); w != nil {
			r.Bad("R2", inst+"/feepool", where, "a success exit of the redirect branch is reachable without a fee-pool read-add-write depending on amounts", P.witness(w)...)
		} else {
			r.OK("R2", inst+"/feepool", where, "fee pool Get→Add(amounts)→Set on every success path")
		}
		if w := (PathQuery{Fn: fn, StartBlock: tb, Target: isEmbedded}).Search(); w != nil {
			r.Bad("R2", inst+"/no-burn", where, "the embedded bank BurnCoins is reachable on the redirect branch", P.witness(w)...)
		} else {
			r.OK("R2", inst+"/no-burn", where, "embedded burn unreachable on the redirect branch")
		}
	}
	r.Floor("R2", "redirect edges", nRedirect, 3)
	// the community pool is updated only by the SDK's DecCoins.Add(old pool, coins made from amounts):
	// every store into FeePool.CommunityPool (or an element of it) must be the result of such a call
	nPoolStores := 0
	eachInstr(fn, func(in ssa.Instruction) {
		st, ok := in.(*ssa.Store)
		if !ok {
			return
		}
		touches := false
		for a := st.Addr; a != nil; {
			if sn, f, ok := fieldOfAddr(a); ok && sn == "FeePool" && f == "CommunityPool" {
				touches = true
				break
			}
			switch x := a.(type) {
			case *ssa.FieldAddr:
				a = x.X
			case *ssa.IndexAddr:
				a = x.X
			case *ssa.UnOp:
				a = x.X
			default:
				a = nil
			}
		}
		if !touches {
			return
		}
		nPoolStores++
		okAdd := false
		if c, ok := st.Val.(*ssa.Call); ok {
			ci := callInfo(c)
			if ci.Name == "Add" && ci.Recv == "DecCoins" {
				args := callArgs(c)
				recvDep := backSlice(args[0]).HasField("FeePool", "CommunityPool")
				argDep := false
				if len(args) > 1 {
					sl := backSlice(args[1])
					argDep = sl.HasParam("amounts") && sl.HasCall(func(g CallInfo) bool { return g.Name == "NewDecCoinsFromCoins" || g.Name == "NewDecCoinFromCoin" })
				}
				_, direct := st.Addr.(*ssa.FieldAddr)
				okAdd = recvDep && argDep && direct
			}
		}
		r.Check(okAdd, "R2", fmt.Sprintf("%s#redirect-branch/pool-add-%d", fnID(fn), nPoolStores), P.Pos(instrPos(in)),
			"CommunityPool = CommunityPool.Add(NewDecCoinsFromCoins(amounts))",
			"the community pool is written with something other than DecCoins.Add(<stored pool>, <dec coins of amounts>): part of the redirected burn may not be credited to the pool")
	})
	r.Floor("R2", "stores into FeePool.CommunityPool", nPoolStores, 1)
	// R5: what is written into the fee pool can be read back
	r.Rule("R5", "PATH.redirected-amount-is-bounded: a coin amount is a 256-bit integer (an IBC voucher can be received with 2^256-1 units and deposited on a proposal), the community pool holds 18-decimal fixed-point numbers of at most 315 bits, and Dec.Marshal does not check the length while Dec.Unmarshal does. The redirect branch converts the burned amounts with NewDecCoinsFromCoins and writes the pool raw: some branch condition on the way from the conversion to the store must depend on the amounts (a bound that diverts what cannot be represented) — otherwise a vetoed proposal with such a deposit stores a pool that can never be read again and the next BeginBlock panics on every node")
	{
		bounded := false
		for _, b := range fn.Blocks {
			ifi, ok := lastIf(b)
			if !ok {
				continue
			}
			sl := backSlice(ifi.Cond)
			if sl.HasParam("amounts") && (sl.HasCall(func(g CallInfo) bool {
				n := g.Name
				return n == "BitLen" || n == "LT" || n == "LTE" || n == "GT" || n == "GTE" || strings.Contains(n, "Overflow") || strings.Contains(n, "Bound")
			})) {
				bounded = true
			}
		}
		converts := len(findCalls(fn, func(ci CallInfo) bool { return ci.Name == "NewDecCoinsFromCoins" || ci.Name == "NewDecCoinFromCoin" })) > 0
		r.Check(bounded || !converts, "R5", fnID(fn)+"#redirected-amount-is-bounded", where, "a bound on the amounts guards the conversion",
			"the redirect converts 256-bit coin amounts into 315-bit fixed-point numbers and stores the pool without any bound: BurnCoins(gov, [1 ISLM, 2^256-1 ibc/…]) — the deposit of a vetoed proposal — writes a FeePool whose next read fails ('decimal out of range; got: 316, max: 315'): distribution BeginBlocker panics, the chain halts")
	}
	// when the credit is assembled coin by coin, no coin of the burn is passed over
	for _, h := range fn.Blocks {
		if !isLoopHeader(h) {
			continue
		}
		body := loopBody(h)
		elems := map[ssa.Value]bool{}
		for b := range body {
			for _, in := range b.Instrs {
				if ia, ok := in.(*ssa.IndexAddr); ok && backSlice(ia.X).HasParam("amounts") {
					if _, isConst := ia.Index.(*ssa.Const); !isConst {
						elems[ia] = true
					}
				}
			}
		}
		if len(elems) == 0 {
			continue
		}
		collects := func(in ssa.Instruction) bool {
			c, ok := in.(*ssa.Call)
			if !ok {
				return false
			}
			isApp := false
			if b, ok := c.Call.Value.(*ssa.Builtin); ok && b.Name() == "append" {
				isApp = true
			}
			if ci := callInfo(c); ci.Name == "Add" && (ci.Recv == "DecCoins" || ci.Recv == "Coins") {
				isApp = true
			}
			if !isApp {
				return false
			}
			hit := false
			backSlice(c.Call.Args...).Any(func(v ssa.Value) bool {
				if elems[v] {
					hit = true
				}
				return hit
			})
			return hit
		}
		var w []ssa.Instruction
		for _, sc := range h.Succs {
			if body[sc] && sc != h {
				if p := (PathQuery{Fn: fn, StartBlock: sc, Block: collects, Target: func(in ssa.Instruction) bool { return in == h.Instrs[0] }}).Search(); p != nil {
					w = p
				}
			}
		}
		r.Check(w == nil, "R2", fmt.Sprintf("%s#redirect-branch/every-coin-credited@%s", fnID(fn), h.Comment), P.Pos(instrPos(h.Instrs[0])), "every coin of the burn is added to the credit",
			"the loop that assembles the community-pool credit can move on to the next coin without adding the current one: that coin is sent to the distribution account but never credited to the pool", P.witness(w)...)
	}
	if w := (PathQuery{Fn: fn, Block: isEmbedded, Target: isSuccessExit, DelEdge: edgeSet(eqEdges)}).Search(); w != nil {
		r.Bad("R2", fnID(fn)+"#other-modules-burn", where, "for a module outside the redirected set a success exit is reachable without the embedded BurnCoins(moduleName, amounts)", P.witness(w)...)
	} else {
		r.OK("R2", fnID(fn)+"#other-modules-burn", where, "all other module names reach the embedded burn")
	}

	// R3 wiring
	newHaqq, ok := P.FnOK("app.NewHaqq")
	if !ok {
		r.Bad("R3", "anchor/NewHaqq", "", "app.NewHaqq not found")
		return
	}
	wired := 0
	for _, f := range withAnon(newHaqq) {
		eachCall(f, func(ci CallInfo) {
			if ci.Name != "NewKeeper" || ci.Recv != "" {
				return
			}
			isStaking := pathHasSuffix(ci.PkgPath, "x/staking/keeper")
			isGov := pathHasSuffix(ci.PkgPath, "x/gov/keeper")
			if !isStaking && !isGov {
				return
			}
			// find the argument whose parameter type is a BankKeeper interface
			sig := ci.Instr.Common().Signature()
			for i := 0; i < sig.Params().Len(); i++ {
				if namedName(sig.Params().At(i).Type()) != "BankKeeper" {
					continue
				}
				arg := argN(ci.Instr, i)
				st := stripValue(arg).Type()
				ok := namedName(st) == "BaseKeeper" && pathHasSuffix(namedPkgPath(st), haqqMod+"/x/bank/keeper")
				inst := "app.NewHaqq#" + strings.TrimPrefix(ci.PkgPath, haqqMod+"/") + ".NewKeeper/bank"
				wired++
				r.Check(ok, "R3", inst, P.Pos(instrPos(ci.Instr)),
					"bank keeper argument is the overriding *x/bank/keeper.BaseKeeper",
					fmt.Sprintf("bank keeper argument has static type %s; burns by this module would not be redirected", st))
			}
		})
	}
	r.Floor("R3", "staking+gov keeper constructions", wired, 2)
	// distr store key
	nb := 0
	eachCall(newHaqq, func(ci CallInfo) {
		if ci.Name == "NewBaseKeeper" && pathHasSuffix(ci.PkgPath, haqqMod+"/x/bank/keeper") {
			nb++
			a := argN(ci.Instr, 2)
			okKey := false
			distrKey, _ := P.constOf("github.com/cosmos/cosmos-sdk/x/distribution/types", "StoreKey")
			if l, ok := stripValue(a).(*ssa.Lookup); ok {
				if s, ok := constString(l.Index); ok && s == distrKey {
					okKey = true
				}
			}
			r.Check(okKey, "R3", "app.NewHaqq#haqqbank.NewBaseKeeper/distrStoreKey", P.Pos(instrPos(ci.Instr)),
				"distrStoreKey = keys[distribution]", "the distribution store key handed to the override is not keys[distrtypes.StoreKey]")
		}
	})
	r.Floor("R3", "haqq bank keeper constructions", nb, 1)
	// staking wrapper forwards bk
	if sk, ok := P.FnOK("x/staking/keeper.NewKeeper"); ok {
		n := 0
		eachCall(sk, func(ci CallInfo) {
			if ci.Name == "NewKeeper" && pathHasSuffix(ci.PkgPath, "cosmos-sdk/x/staking/keeper") {
				n++
				a := stripValue(argN(ci.Instr, 3))
				p, ok := a.(*ssa.Parameter)
				r.Check(ok && p.Name() == "bk", "R3", "x/staking/keeper.NewKeeper#sdk.NewKeeper/bk", P.Pos(instrPos(ci.Instr)),
					"wrapper forwards its bank keeper", "the staking wrapper does not hand its bk parameter to the SDK staking keeper")
			}
		})
		r.Floor("R3", "sdk staking keeper constructions in wrapper", n, 1)
	} else {
		r.Bad("R3", "anchor/x/staking/keeper.NewKeeper", "", "staking wrapper constructor not found")
	}

	// R4: burns with a redirected constant module name anywhere in Haqq non-test code
	wantSet := map[string]bool{}
	for _, w := range want {
		wantSet[w] = true
	}
	nBurn := 0
	for _, f := range P.Funcs {
		if f == fn {
			continue
		}
		eachCall(f, func(ci CallInfo) {
			if ci.Name != "BurnCoins" || ci.Obj == nil {
				return
			}
			if isTestSupport(P, f) {
				return
			}
			nBurn++
			a := argN(ci.Instr, 1)
			if s, ok := constString(a); ok && wantSet[s] {
				// receiver must be the override
				recvT := ""
				if ci.Invoke {
					recvT = "interface " + ci.Recv
				} else {
					recvT = ci.PkgPath + "." + ci.Recv
				}
				if !(ci.Static != nil && pathHasSuffix(ci.PkgPath, haqqMod+"/x/bank/keeper")) {
					r.Bad("R4", fnID(outermost(f))+"#BurnCoins/"+s, P.Pos(instrPos(ci.Instr)),
						fmt.Sprintf("burn for redirected module account %q through %s, which is not provably the overriding keeper", s, recvT))
				}
			}
		})
	}
	r.Floor("R4", "BurnCoins call sites in Haqq code", nBurn, 4)
	r.OK("R4", "all-burn-sites", "", fmt.Sprintf("%d BurnCoins call sites scanned; none burns for gov/bonded/not-bonded through a foreign keeper", nBurn))
}

// isTestSupport: functions in packages that are test scaffolding only (never linked into consensus).
func isTestSupport(P *Prog, fn *ssa.Function) bool {
	p := fnPkgPath(fn)
	rel := strings.TrimPrefix(p, haqqMod+"/")
	if strings.HasPrefix(rel, "testutil") || strings.HasPrefix(rel, "tests/") || strings.Contains(rel, "/mocks") || strings.Contains(rel, "/testutil") || strings.HasPrefix(rel, "precompiles/testutil") {
		return true
	}
	f := P.FileOf(fnPos(outermost(fn)))
	base := f[strings.LastIndex(f, "/")+1:]
	return strings.HasPrefix(base, "test_helpers") || strings.HasSuffix(base, "_test.go") || base == "ethtest_helper.go"
}
