package main

import (
	"go/types"
	"sort"
	"fmt"
	"go/token"
	"strings"

	"golang.org/x/tools/go/ssa"
)

func init() {
	register(&propDef{
		ID:  "C09",
		Run: runC09,
		Explanation: "Static analysis of the clawback authority and transfer structure: (R1) Clawback, UpdateVestingFunder and the merge branch of CreateClawbackVestingAccount reach their effect only over the edge on which the recorded funder equals the message signer; the funder field is written only by the constructor and UpdateVestingFunder; " +
			"(R2) transferClawback stores the account returned by ComputeClawback(block time) and sends exactly the coins it returned from the account to the destination; ComputeClawback's new OriginalVesting derives from the vested amount and the returned coins from the unvested amount at the same time. " +
			"(R4) ReadSchedule and ReadPastPeriodCount treat a period ending exactly at the read time as ended and handle the two limits up front. The arithmetic statements of C09 (ReadSchedule monotonicity and limits, DisjunctPeriods = union, ConjunctPeriods = minimum, vested+unvested = original) are NOT decided: no sound static argument in reach bounds them, and no run-time test is substituted.",
		Assumptions: []string{"sdk.Coins arithmetic", "MsgClawback/MsgUpdateVestingFunder.GetSigners return the funder address field"},
		Declined:    []string{"every arithmetic statement of C09: ReadSchedule monotonicity/limits, DisjunctPeriods = union of release events, ConjunctPeriods = pointwise minimum, vested+unvested = original, validity of the resulting account"},
	})
}

func runC09(r *Run) {
	P := r.P
	const vk = "x/vesting/keeper"
	r.Rule("R1", "PATH.funder + OWN: transferClawback (in Clawback), the FunderAddress store (in UpdateVestingFunder) and addGrant (in CreateClawbackVestingAccount) are reachable only over the edge on which va.FunderAddress equals the message's funder/from field; stores to ClawbackVestingAccount.FunderAddress only in NewClawbackVestingAccount and UpdateVestingFunder (+ generated code)")
	r.Rule("R2", "FLOW/PATH.clawback-transfer: transferClawback calls ComputeClawback(ctx.BlockTime().Unix()), passes its first result to SetAccount and its second result to SendCoins(account address → dest) on every success path with a non-zero amount; in ComputeClawback OriginalVesting := GetVestedCoins(t) and the returned coins := GetVestingCoins(t) for t from the parameter; Clawback sends to funder unless a destination is given and rejects blocked destinations")

	funderEq := func(other func(*Slice) bool) condMatch {
		return func(cond ssa.Value) (bool, bool) {
			b, ok := cond.(*ssa.BinOp)
			if !ok || (b.Op != token.NEQ && b.Op != token.EQL) {
				return false, false
			}
			l, rr := backSlice(b.X), backSlice(b.Y)
			isRec := func(s *Slice) bool { return s.HasField("ClawbackVestingAccount", "FunderAddress") }
			if (isRec(l) && other(rr)) || (isRec(rr) && other(l)) {
				return b.Op == token.EQL, true
			}
			return false, false
		}
	}
	if fn, ok := P.FnOK("(" + vk + ".Keeper).Clawback"); ok {
		isT := isCallMatching(func(ci CallInfo) bool { return ci.Name == "transferClawback" })
		requireGuard(r, "R1", fnID(fn)+"#only-funder", fn, funderEq(func(s *Slice) bool { return onlyMsgField(s, "MsgClawback", "FunderAddress") }), nil, isT,
			"clawback only where recorded funder == msg.FunderAddress", "the clawback transfer is reachable although the recorded funder differs from the message's funder (anyone could claw back)")
		w := Precedes(fn, isCallMatching(func(ci CallInfo) bool { return ci.Name == "transferClawback" && errHandled(ci.Instr) }), isSuccessExit, nil)
		r.Check(w == nil, "R1", fnID(fn)+"#transfers", P.Pos(fnPos(fn)), "success only after transferClawback", "Clawback can succeed without transferring", P.witness(w)...)
		// dest: blocked check and default-to-funder
		var destArg ssa.Value
		eachCall(fn, func(ci CallInfo) {
			if ci.Name == "transferClawback" {
				destArg = stripValue(argN(ci.Instr, 2))
			}
		})
		requireGuard(r, "R2", fnID(fn)+"#dest-not-blocked", fn, func(cond ssa.Value) (bool, bool) {
			c, ok := callNamed(cond, "BlockedAddr")
			if !ok || destArg == nil {
				return false, false
			}
			// the address tested is the very value handed to transferClawback as destination
			a := callArgs(c)
			return false, len(a) > 0 && stripValue(a[len(a)-1]) == destArg
		}, nil, isT, "transfer only to a non-blocked destination", "clawed-back coins can be sent to a blocked (module) address")
		okDest := false
		eachCall(fn, func(ci CallInfo) {
			if ci.Name == "transferClawback" {
				d := backSlice(argN(ci.Instr, 2))
				okDest = d.HasField("MsgClawback", "DestAddress") && d.HasField("MsgClawback", "FunderAddress")
			}
		})
		r.Check(okDest, "R2", fnID(fn)+"#dest-source", P.Pos(fnPos(fn)), "dest = msg.DestAddress or, if empty, the funder", "the clawback destination no longer derives from msg.DestAddress / msg.FunderAddress")
	} else {
		r.Bad("R1", "anchor/Clawback", "", "vesting Keeper.Clawback not found")
	}
	if fn, ok := P.FnOK("(" + vk + ".Keeper).UpdateVestingFunder"); ok {
		isStore := func(in ssa.Instruction) bool {
			st, ok := in.(*ssa.Store)
			if !ok {
				return false
			}
			sn, f, ok := fieldOfAddr(st.Addr)
			return ok && sn == "ClawbackVestingAccount" && f == "FunderAddress"
		}
		requireGuard(r, "R1", fnID(fn)+"#only-funder", fn, funderEq(func(s *Slice) bool { return onlyMsgField(s, "MsgUpdateVestingFunder", "FunderAddress") }), nil, isStore,
			"funder updated only where recorded funder == msg.FunderAddress", "the funder address can be replaced by someone who is not the recorded funder")
		w := PathQuery{Fn: fn, Block: isCallMatching(func(ci CallInfo) bool { return ci.Name == "SetAccount" }), Target: isSuccessExit}.Search()
		r.Check(w == nil, "R1", fnID(fn)+"#stored", P.Pos(fnPos(fn)), "updated account is stored", "UpdateVestingFunder can succeed without storing the account", P.witness(w)...)
	} else {
		r.Bad("R1", "anchor/UpdateVestingFunder", "", "not found")
	}
	for _, name := range []string{"CreateClawbackVestingAccount"} {
		fn, ok := P.FnOK("(" + vk + ".Keeper)." + name)
		if !ok {
			r.Bad("R1", "anchor/"+name, "", "not found")
			continue
		}
		isAdd := isCallMatching(func(ci CallInfo) bool { return ci.Name == "addGrant" })
		requireGuard(r, "R1", fnID(fn)+"#merge-only-by-funder", fn, funderEq(func(s *Slice) bool { return onlyMsgField(s, "MsgCreateClawbackVestingAccount", "FromAddress") }), nil, isAdd,
			"a grant is merged only where recorded funder == msg.FromAddress", "a grant can be merged into an existing vesting account by someone who is not its funder (schedules and clawback rights of the account change)")
	}
	// addGrant replaces the whole schedule consistently: start, end and both period lists come from the two DisjunctPeriods calls
	r.Rule("R3", "FLOW.merge-completeness: addGrant stores StartTime, EndTime, LockupPeriods, VestingPeriods (each from the results of DisjunctPeriods over the account's and the grant's periods) and OriginalVesting (plus the grant coins) on every success path")
	if ag, ok := P.FnOK("(" + vk + ".Keeper).addGrant"); ok {
		need := map[string]func(v ssa.Value) bool{
			"ClawbackVestingAccount.StartTime":      func(v ssa.Value) bool { return backSlice(v).HasCall(func(g CallInfo) bool { return g.Name == "DisjunctPeriods" }) },
			"BaseVestingAccount.EndTime":            func(v ssa.Value) bool { return backSlice(v).HasCall(func(g CallInfo) bool { return g.Name == "DisjunctPeriods" }) },
			"ClawbackVestingAccount.LockupPeriods":  func(v ssa.Value) bool { s := backSlice(v); return s.HasCall(func(g CallInfo) bool { return g.Name == "DisjunctPeriods" }) && s.HasParam("grantLockupPeriods") },
			"ClawbackVestingAccount.VestingPeriods": func(v ssa.Value) bool { s := backSlice(v); return s.HasCall(func(g CallInfo) bool { return g.Name == "DisjunctPeriods" }) && s.HasParam("grantVestingPeriods") },
			"BaseVestingAccount.OriginalVesting":    func(v ssa.Value) bool { return backSlice(v).HasParam("grantCoins") },
		}
		for key, okVal := range need {
			parts := strings.SplitN(key, ".", 2)
			isSt := func(in ssa.Instruction) bool {
				st, ok := in.(*ssa.Store)
				if !ok {
					return false
				}
				sn, f, ok := fieldOfAddr(st.Addr)
				return ok && sn == parts[0] && f == parts[1] && okVal(st.Val)
			}
			w := Precedes(ag, isSt, isSuccessExit, nil)
			r.Check(w == nil, "R3", fnID(ag)+"#sets-"+parts[1], P.Pos(fnPos(ag)), "stored from the merged schedule on every success path", "addGrant can succeed without updating "+parts[1]+" from the merged schedules: the stored periods are relative to the merged start, so a stale "+parts[1]+" shifts or truncates every release event (the merge is no longer the union)", P.witness(w)...)
		}
		// the merge is DisjunctPeriods on every path: no side path computes the merged schedules some other way
		for _, which := range []struct{ param, name string }{{"grantLockupPeriods", "lockup"}, {"grantVestingPeriods", "vesting"}} {
			which := which
			isDP := isCallMatching(func(ci CallInfo) bool {
				if ci.Name != "DisjunctPeriods" {
					return false
				}
				for _, a := range ci.Instr.Common().Args {
					if backSlice(a).HasParam(which.param) {
						return true
					}
				}
				return false
			})
			w := Precedes(ag, isDP, isSuccessExit, nil)
			r.Check(w == nil, "R3", fnID(ag)+"#merges-"+which.name+"-with-DisjunctPeriods", P.Pos(fnPos(ag)), "every success path merges the "+which.name+" schedules with DisjunctPeriods",
				"addGrant can succeed on a path that does not merge the "+which.name+" schedules with DisjunctPeriods (a second, hand-written merge): whether that path yields the union of release events is not established — e.g. appending the grant after an idle gap measured from the account's EndTime shifts the events of whichever schedule ends earlier", P.witness(w)...)
		}
	} else {
		r.Bad("R3", "anchor/addGrant", "", "not found")
	}
	// other callers of addGrant must also compare the funder
	nAdd := 0
	for _, fn := range P.Funcs {
		if !pathHasSuffix(fnPkgPath(fn), vk) || isTestSupport(P, fn) || fn.Synthetic != "" {
			continue
		}
		eachCall(fn, func(ci CallInfo) {
			if ci.Name != "addGrant" || ci.Static == nil {
				return
			}
			nAdd++
			if strings.HasSuffix(fnID(fn), ".CreateClawbackVestingAccount") {
				return
			}
			g := funderEq(func(s *Slice) bool { return true })
			call := ci.Instr
			requireGuard(r, "R1", fnID(fn)+"#merge-only-by-funder", fn, g, nil, func(in ssa.Instruction) bool { return in == ssa.Instruction(call) },
				"addGrant only after comparing with the recorded funder", "addGrant is reachable without comparing the recorded funder")
		})
	}
	r.Floor("R1", "addGrant call sites", nAdd, 1)
	// OWN FunderAddress
	allowed := map[string]bool{"x/vesting/types.NewClawbackVestingAccount": true, "(" + vk + ".Keeper).UpdateVestingFunder": true}
	nW := 0
	for _, fn := range P.Funcs {
		if isTestSupport(P, fn) || fn.Synthetic != "" || isGeneratedFile(P.FileOf(fnPos(outermost(fn)))) {
			continue
		}
		eachInstr(fn, func(in ssa.Instruction) {
			st, ok := in.(*ssa.Store)
			if !ok {
				return
			}
			if sn, f, ok := fieldOfAddr(st.Addr); ok && sn == "ClawbackVestingAccount" && f == "FunderAddress" {
				nW++
				owner := fnID(outermost(fn))
				r.Check(allowed[owner] || strings.HasPrefix(owner, "app/upgrades/"), "R1", owner+"#writes-FunderAddress", P.Pos(instrPos(in)), "confirmed writer", "the recorded funder is written outside NewClawbackVestingAccount / UpdateVestingFunder")
			}
		})
	}
	r.Floor("R1", "stores to ClawbackVestingAccount.FunderAddress", nW, 2)

	// ---------- R2 ----------
	if fn, ok := P.FnOK("(" + vk + ".Keeper).transferClawback"); ok {
		var cc *ssa.Call
		eachCall(fn, func(ci CallInfo) {
			if ci.Name == "ComputeClawback" {
				if c, ok := ci.Instr.(*ssa.Call); ok {
					cc = c
				}
			}
		})
		if cc == nil {
			r.Bad("R2", fnID(fn)+"#compute", P.Pos(fnPos(fn)), "transferClawback no longer calls ComputeClawback")
		} else {
			t := backSlice(cc.Call.Args[len(cc.Call.Args)-1])
			r.Check(t.HasCall(func(ci CallInfo) bool { return ci.Name == "BlockTime" }), "R2", fnID(fn)+"#at-block-time", P.Pos(instrPos(cc)), "computed at ctx.BlockTime()", "the clawback is not computed at the block time")
			res := func(v ssa.Value, idx int) bool {
				return backSlice(v).Any(func(x ssa.Value) bool {
					e, ok := x.(*ssa.Extract)
					return ok && e.Tuple == ssa.Value(cc) && e.Index == idx
				})
			}
			isSet := isCallMatching(func(ci CallInfo) bool { return ci.Name == "SetAccount" && res(argN(ci.Instr, 1), 0) })
			isSend := isCallMatching(func(ci CallInfo) bool {
				if ci.Name != "SendCoins" {
					return false
				}
				amt := stripValue(argN(ci.Instr, 3))
				e, ok := amt.(*ssa.Extract)
				if !ok || e.Tuple != ssa.Value(cc) || e.Index != 1 {
					return false
				}
				from := backSlice(argN(ci.Instr, 1))
				return from.HasCall(func(g CallInfo) bool { return g.Name == "GetAddress" }) && isParam(argN(ci.Instr, 2), "dest")
			})
			zero, _ := guardPassEdges(fn, func(cond ssa.Value) (bool, bool) {
				c, ok := callNamed(cond, "IsZero")
				return true, ok && res(callArgs(c)[0], 1)
			})
			w := PathQuery{Fn: fn, Block: isSet, Target: isSuccessExit, DelEdge: edgeSet(zero)}.Search()
			r.Check(w == nil, "R2", fnID(fn)+"#stores-updated-account", P.Pos(fnPos(fn)), "account returned by ComputeClawback is stored", "transferClawback can succeed (non-zero amount) without storing the account ComputeClawback returned", P.witness(w)...)
			w = PathQuery{Fn: fn, Block: isSend, Target: isSuccessExit, DelEdge: edgeSet(zero)}.Search()
			r.Check(w == nil, "R2", fnID(fn)+"#sends-computed-coins", P.Pos(fnPos(fn)), "exactly ComputeClawback's coins go from the account to dest", "transferClawback can succeed (non-zero amount) without SendCoins(account → dest, <coins returned by ComputeClawback>)", P.witness(w)...)
		}
	} else {
		r.Bad("R2", "anchor/transferClawback", "", "not found")
	}
	if fn, ok := P.FnOK("(x/vesting/types.ClawbackVestingAccount).ComputeClawback"); ok {
		okOV, okRet := false, false
		atParam := func(c *ssa.Call) bool { return backSlice(c.Call.Args[len(c.Call.Args)-1]).HasParam("clawbackTime") }
		eachInstr(fn, func(in ssa.Instruction) {
			if st, ok := in.(*ssa.Store); ok {
				if sn, f, ok := fieldOfAddr(st.Addr); ok && sn == "BaseVestingAccount" && f == "OriginalVesting" {
					if c, ok := stripValue(st.Val).(*ssa.Call); ok && callInfo(c).Name == "GetVestedCoins" && atParam(c) {
						okOV = true
					}
				}
			}
			if ret, ok := in.(*ssa.Return); ok {
				if c, ok := stripValue(retOperands(ret)[1]).(*ssa.Call); ok && callInfo(c).Name == "GetVestingCoins" && atParam(c) {
					okRet = true
				}
			}
		})
		r.Check(okOV, "R2", fnID(fn)+"#keeps-vested", P.Pos(fnPos(fn)), "OriginalVesting := GetVestedCoins(clawbackTime)", "after a clawback the account's OriginalVesting is not the amount vested at the clawback time (vested coins would be lost or unvested kept)")
		r.Check(okRet, "R2", fnID(fn)+"#returns-unvested", P.Pos(fnPos(fn)), "returns GetVestingCoins(clawbackTime)", "ComputeClawback does not return exactly the unvested amount at the clawback time")
		// the account that is left is rebuilt on every path: lockup capped to the vested total, vesting truncated
		okLP, nLP, okVP, nVP := true, 0, true, 0
		eachInstr(fn, func(in ssa.Instruction) {
			st, ok := in.(*ssa.Store)
			if !ok {
				return
			}
			sn, f, ok := fieldOfAddr(st.Addr)
			if !ok || sn != "ClawbackVestingAccount" {
				return
			}
			switch f {
			case "LockupPeriods":
				nLP++
				e, isE := stripValue(st.Val).(*ssa.Extract)
				var c *ssa.Call
				if isE {
					c, _ = e.Tuple.(*ssa.Call)
				}
				if c == nil || callInfo(c).Name != "ConjunctPeriods" || e.Index != 2 {
					okLP = false
					return
				}
				a := c.Call.Args
				if len(a) != 4 || !backSlice(a[2]).HasField("ClawbackVestingAccount", "LockupPeriods") || !backSlice(a[3]).HasCall(func(g CallInfo) bool { return g.Name == "GetVestedCoins" }) {
					okLP = false
				}
			case "VestingPeriods":
				nVP++
				sl := backSlice(st.Val)
				if !(sl.HasField("ClawbackVestingAccount", "VestingPeriods") && sl.HasCall(func(g CallInfo) bool { return g.Name == "GetPassedPeriodCount" })) {
					okVP = false
				}
			}
		})
		r.Check(okLP && nLP == 1, "R2", fnID(fn)+"#lockup-capped", P.Pos(fnPos(fn)), "LockupPeriods := ConjunctPeriods(lockup, one period of the vested total) unconditionally", "after a clawback the lockup schedule is not (on every path) the pointwise minimum of the old lockup schedule and the vested total: the kept lockup periods can sum to more than the new OriginalVesting (an invalid account that releases the clawed-back amount again after a later merge)")
		r.Check(okVP && nVP == 1, "R2", fnID(fn)+"#vesting-truncated", P.Pos(fnPos(fn)), "VestingPeriods := the periods passed at the clawback time", "after a clawback the vesting periods are not the already-passed prefix of the old ones")
		// exactly one way out: the rebuilt account
		nRet := 0
		eachInstr(fn, func(in ssa.Instruction) {
			if _, ok := in.(*ssa.Return); ok {
				nRet++
			}
		})
		r.Check(nRet == 1, "R2", fnID(fn)+"#single-exit", P.Pos(fnPos(fn)), "one return (no early exit that skips part of the rebuild)", fmt.Sprintf("ComputeClawback has %d returns: an early exit can skip part of the account rebuild", nRet))
	} else {
		r.Bad("R2", "anchor/ComputeClawback", "", "not found")
	}
	r.Rule("R18", "OWN.period-lists-come-from-the-schedule-arithmetic: the period lists of a clawback vesting account are what every lock and every clawback is read from. In x/vesting/keeper a store into an account's LockupPeriods / VestingPeriods takes a value produced by DisjunctPeriods (merge), ConjunctPeriods / ComputeClawback (clawback) or the message's own lists (creation) — and by no other Haqq function: a 'hygiene' step that folds elapsed periods after a merge keeps the amounts but re-dates every later event (the folded period carries one length, not the sum), so locked coins unlock early")
	{
		allowed := map[string]bool{"DisjunctPeriods": true, "ConjunctPeriods": true, "ComputeClawback": true, "GetLockupPeriods": true, "GetVestingPeriods": true}
		nPL := 0
		for _, fn := range P.Funcs {
			if !pathHasSuffix(fnPkgPath(fn), "x/vesting/keeper") || isTestSupport(P, fn) || fn.Synthetic != "" {
				continue
			}
			idx := map[string]int{}
			eachInstr(fn, func(in ssa.Instruction) {
				st, ok := in.(*ssa.Store)
				if !ok {
					return
				}
				sn, f, ok := fieldOfAddr(st.Addr)
				if !ok || sn != "ClawbackVestingAccount" || !(f == "LockupPeriods" || f == "VestingPeriods") {
					return
				}
				nPL++
				idx[f]++
				bad := ""
				backSlice(st.Val).Any(func(v ssa.Value) bool {
					c, ok := v.(*ssa.Call)
					if !ok {
						return false
					}
					ci := callInfo(c)
					if ci.Static != nil && isHaqqPath(fnPkgPath(ci.Static)) && !allowed[ci.Name] && namedName(c.Type()) == "Periods" && bad == "" {
						bad = ci.Name
					}
					return false
				})
				r.Check(bad == "", "R18", fmt.Sprintf("%s#%s-%d-from-the-schedule-arithmetic", fnID(fn), f, idx[f]), P.Pos(instrPos(in)), "the stored list comes from DisjunctPeriods / ConjunctPeriods / ComputeClawback or the message",
					"the vesting keeper stores a period list produced by "+bad+" into the account: a rewrite of the list outside the merge / clawback arithmetic can move the dates of future events while every amount stays right")
			})
		}
		r.Floor("R18", "stores into an account's period lists in x/vesting/keeper", nPL, 2)
	}
	r.Rule("R17", "FLOW.merge-never-lowers-the-tracked-delegation: a merge (addGrant — reached by the funder's second grant and, through liquid vesting's Redeem, by anybody) re-derives the account's delegation tracking from the staking module's current figures. After a slash those are lower than what left the bank balance; coins lost to slashing stay tracked as delegated (as in the SDK), otherwise the locked amount exceeds what the account can still hold and the funder's clawback of the untouched unvested coins fails with 'insufficient funds'. The DelegatedFree that addGrant stores is therefore the larger (MaxInt) of the amount tracked so far (DelegatedFree + DelegatedVesting) and the current bonded + unbonding amount")
	if ag, ok := P.FnOK("(x/vesting/keeper.Keeper).addGrant"); ok {
		okDF, nDF := true, 0
		eachInstr(ag, func(in ssa.Instruction) {
			st, ok := in.(*ssa.Store)
			if !ok {
				return
			}
			if _, f, ok := fieldOfAddr(st.Addr); !ok || f != "DelegatedFree" {
				return
			}
			nDF++
			sl := backSlice(st.Val)
			if !(sl.HasCall(func(g CallInfo) bool { return g.Name == "MaxInt" }) && sl.HasField("", "DelegatedFree") && sl.HasField("", "DelegatedVesting")) {
				okDF = false
			}
		})
		r.Check(okDF && nDF >= 1, "R17", fnID(ag)+"#tracked-delegation-not-lowered", P.Pos(fnPos(ag)), "DelegatedFree := MaxInt(tracked so far, bonded + unbonding)",
			"addGrant overwrites the delegation tracking with the staking module's current figure alone: after a slash of any size the tracked amount drops below what left the balance, LockedCoins exceeds the balance and the funder's clawback is refused — anybody can trigger the merge by redeeming one unit of a liquid token into the account")
	} else {
		r.Bad("R17", "anchor/addGrant", "", "not found")
	}
	r.Rule("R16", "see C08 R3 (imported): the one place where Haqq code calls the SDK staking keeper's Delegate directly (the 'stake' option of ConvertIntoVestingAccount, no unvested-coins check) bonds exactly what the *new grant's own* schedule has vested at the block time — ReadSchedule over the message's vesting periods — and not what the stored account reports as vested after the merge: the account's vested coins include earlier grants' coins that may have left the balance, so unvested coins of the new grant would be bonded and a later clawback cannot be paid")
	r.Import("R16/C08.", []string{"R3"}, runC08)
	r.Rule("R19", "see C08 R8 (imported): 'a clawback keeps every vested coin, still subject to its lockup' — the one way out of the account type, ConvertVestingAccount, is refused while the schedule still locks anything (HasLockedCoins) or anything is unvested, not merely while the bank would refuse a transfer (LockedCoins subtracts what is delegated): delegate the vested-but-locked coins, have the rest clawed back, convert — and the lockup is gone")
	r.Import("R19/C08.", []string{"R8"}, runC08)
	r.Rule("R20", "FLOW.the-grant's-own-start-reaches-the-merge: the period lengths of a grant are relative to the grant's start, and addGrant aligns the two schedules itself (R6); every caller therefore hands addGrant, as the grant's start, exactly the Unix() of the time it was given — not a value chosen between that and the account's start (a phi), not arithmetic on it: clamping a later grant start to the account's start moves every lockup and vesting event of the new grant earlier by the age of the account")
	{
		n := 0
		for _, fn := range r.P.Funcs {
			if !isHaqqPath(fnPkgPath(fn)) || isTestSupport(r.P, fn) || fn.Synthetic != "" {
				continue
			}
			idx := 0
			eachCall(fn, func(ci CallInfo) {
				if ci.Name != "addGrant" || !pathHasSuffix(ci.PkgPath, "x/vesting/keeper") {
					return
				}
				args := ci.Instr.Common().Args
				// receiver, ctx, account, grantStartTime, …
				var start ssa.Value
				for _, a := range args {
					if b, ok := a.Type().Underlying().(*types.Basic); ok && b.Kind() == types.Int64 {
						start = a
						break
					}
				}
				if start == nil {
					return
				}
				idx++
				n++
				c, isCall := start.(*ssa.Call)
				ok := isCall && callInfo(c).Name == "Unix" && callInfo(c).Recv == "Time"
				r.Check(ok, "R20", fmt.Sprintf("%s#addGrant-%d-start-is-the-given-time", fnID(fn), idx), r.P.Pos(instrPos(ci.Instr)), "the start argument is <time>.Unix() itself",
					"the grant start handed to addGrant is not the Unix() of the time the caller was given (it is chosen or computed): an account 1000 s old receives, through ConvertIntoVestingAccount{Merge} or a liquid-vesting redeem, a grant starting now with one event at +1000 s — at +10 s LockedCoins and GetVestingCoins are empty instead of 1000aISLM and the bank lets 600 of them go")
			})
		}
		r.Floor("R20", "calls of addGrant", n, 2)
	}
	r.Rule("R6", "FLOW.endtime (same rule code as C08 R6): every store to a vesting account's EndTime depends on both the lockup and the vesting schedule — ReadSchedule returns the full amount from EndTime on, so an end taken from one schedule ends the other's lock early (the account is no longer valid)")
	checkEndTimeStores(r, "R6")
	// R4
	r.Rule("R4", "TABLE.boundary-convention: in ReadSchedule and ReadPastPeriodCount every comparison between a running period end (a value derived from Period.Length) and the readTime parameter counts a period whose end equals readTime as ended ('the sum of all periods ended by t'); both functions return early with the empty result for readTime <= startTime and with the total for readTime >= endTime")
	for _, name := range []string{"ReadSchedule", "ReadPastPeriodCount"} {
		fn, ok := P.FnOK("x/vesting/types." + name)
		if !ok {
			r.Bad("R4", "anchor/"+name, "", "not found")
			continue
		}
		checkBoundary(r, "R4", fn, "readTime")
		// limits: readTime <= startTime and readTime >= endTime guards
		lim := map[string]bool{}
		eachInstr(fn, func(in ssa.Instruction) {
			b, ok := in.(*ssa.BinOp)
			if !ok {
				return
			}
			x, y, op := b.X, b.Y, b.Op
			if isParam(y, "readTime") {
				x, y, op = y, x, flipCmp(op)
			}
			if !isParam(x, "readTime") {
				return
			}
			for _, pn := range []string{"startTime", "endTime"} {
				if isParam(y, pn) {
					lim[pn+" "+op.String()] = true
				}
			}
		})
		// The loop counts an event AT readTime (it stops only where readTime < period end). The "nothing yet" shortcut has
		// to agree with it: it may answer only for readTime < startTime. With <= a zero-length first period — which Redeem
		// creates for the vested part of every redeemed grant — is missed at t == start and counted at start+1: a clawback
		// in the grant's own start second takes coins that are vested. (The first form of this rule demanded <=, i.e. it
		// pinned that defect; see DESIGN §5.)
		r.Check(lim["startTime <"] && !lim["startTime <="] && lim["endTime >="], "R4", fnID(fn)+"#limits", P.Pos(fnPos(fn)), "readTime < startTime (nothing yet) and readTime >= endTime (everything) are handled up front",
			fmt.Sprintf("the limit guards are %v, expected readTime < startTime (nothing yet — an event at the start time itself has happened, as the loop counts it) and readTime >= endTime (everything)", keysOf(lim)))
	}
	r.Rule("R7", "PATH.merge-emits-every-event: in DisjunctPeriods every function that appends to the merged period list appends on every path through it — each consumed release event of either schedule becomes a period of the result at its own time — and an already-emitted period is modified in place only where the event's time equals the time of the last emitted event (the one case in which folding two events leaves the released-by-t function unchanged)")
	checkMergeEmits(r, "R7")
	r.Rule("R5", "FLOW.grant-start: the start time handed to addGrant (which DisjunctPeriods takes as the start of the grant's own periods) derives from the grant's start — a parameter or message field of the calling function — and never from the target account's StartTime")
	checkGrantStart(r, "R5")
	r.Rule("R8", "PATH.every-period-validated: in every ValidateBasic that ranges over a LockupPeriods / VestingPeriods message field, each pass through the loop tests that period's own Length in a branch and branches on Coins.IsValid of that period's own Amount before the next iteration — the keeper works with schedule totals only, so a non-positive amount compensated by another period (a schedule that rises above the grant and falls back) is stopped here or nowhere")
	checkPeriodsValidated(r, "R8")
	r.Rule("R9", "PATH.merge-reads-the-old-schedule: in addGrant no store into the account's StartTime, EndTime, LockupPeriods or VestingPeriods can precede a DisjunctPeriods call — both merges (lock-up and vesting) read the account's start and periods as they were before the grant; a merge that runs after the first write-back re-bases the existing events on the new start (every old vesting event moves earlier when the grant is back-dated)")
	checkMergeBeforeUpdate(r, "R9")
	r.Rule("R10", "FLOW.both-branches-see-the-same-schedules (sibling agreement): CreateClawbackVestingAccount defaults an absent lock-up or vesting schedule to an instant one; the schedule it then hands to addGrant (merge into an existing account) and the one it hands to NewClawbackVestingAccount (new account) come from the same source — the same message field (read directly or through its getter) or the same local value — so a grant with one schedule absent is merged with the same defaulted schedule a new account would get")
	checkGrantBranchesAgree(r, "R10")
	r.Rule("R11", "PATH.schedule-clock-advances-every-period: in ReadSchedule and ReadPastPeriodCount the running time that a period's end is computed from is advanced by that period's Length on every pass through the loop — each back edge carries clock + Length; a `continue` that skips the addition reads every later release event earlier by the skipped period's length")
	checkClockAdvances(r, "R11")
	r.Rule("R12", "ERR.failed-steps-fail-the-message: the vesting message server (create / merge, clawback, funder update, conversions) moves coins and rewrites accounts in several steps; a non-nil error of any Context-taking keeper or Haqq call in its handlers reaches failure exits only (shared rule code with C11 R7 / C12 R9)")
	{
		var fns []*ssa.Function
		for _, fn := range r.P.Funcs {
			if !pathHasSuffix(fnPkgPath(fn), "x/vesting/keeper") || fn.Synthetic != "" || fn.Parent() != nil || isTestSupport(r.P, fn) || fn.Signature.Recv() == nil {
				continue
			}
			ps := fn.Signature.Params()
			if ps.Len() == 2 && strings.HasPrefix(namedName(deref(ps.At(1).Type())), "Msg") {
				fns = append(fns, fn)
			}
			if fn.Name() == "addGrant" || fn.Name() == "transferClawback" || fn.Name() == "ApplyVestingSchedule" {
				fns = append(fns, fn)
			}
		}
		n := checkErrorsFailTheMessage(r, "R12", fns, "the steps made before the failing one (coins sent, account rewritten) are committed")
		r.Floor("R12", "error-returning Context-taking calls in the vesting message path", n, 8)
	}
	r.Rule("R13", "FLOW.funder-stored-canonically: Clawback, the merge check and the funder update compare the recorded FunderAddress with the canonical (lower-case bech32) String() of the signer's address; every value stored into ClawbackVestingAccount.FunderAddress is such a String() of a parsed address — never a message's raw string, which may be the same address in another spelling (all-upper-case bech32 passes validation): a funder recorded in a foreign spelling can never claw back")
	{
		nF := 0
		for _, fn := range r.P.Funcs {
			if !strings.HasPrefix(fnPkgPath(fn), haqqMod+"/x/vesting") && !strings.HasPrefix(fnPkgPath(fn), haqqMod+"/x/liquidvesting") || isTestSupport(r.P, fn) || fn.Synthetic != "" || isGeneratedFile(r.P.FileOf(fnPos(outermost(fn)))) {
				continue
			}
			eachInstr(fn, func(in ssa.Instruction) {
				st, ok := in.(*ssa.Store)
				if !ok {
					return
				}
				if sn, f, ok := fieldOfAddr(st.Addr); !ok || sn != "ClawbackVestingAccount" || f != "FunderAddress" {
					return
				}
				nF++
				v := stripValue(st.Val)
				canonical := false
				if c, isC := v.(*ssa.Call); isC {
					ci := callInfo(c)
					canonical = ci.Name == "String" && (ci.Recv == "AccAddress" || strings.HasSuffix(ci.Recv, "Address"))
				}
				r.Check(canonical, "R13", fnID(fn)+"#FunderAddress-canonical", r.P.Pos(instrPos(in)), "stored value is <address>.String()",
					"the funder is recorded from a string that is not the canonical String() of a parsed address (a message field as typed by the sender): the authorisation checks compare with the canonical spelling, so the recorded funder may never match again — clawback and grants by the real funder are refused")
			})
		}
		r.Floor("R13", "canonical stores to ClawbackVestingAccount.FunderAddress", nF, 2)
	}
	r.Rule("R14", "SHAPE.validate-accepts-what-clawback-leaves: ComputeClawback ends the account at max(capped vesting end, capped lock-up end), and both collapse to the start time when nothing has vested yet (or only the zero-length 'instant' default periods survive): a clawed-back account can have EndTime == StartTime. ClawbackVestingAccount.Validate therefore rejects only StartTime > EndTime; a non-strict comparison (>=) makes every fully clawed-back account invalid — it no longer passes genesis validation after an export")
	if vf, ok := r.P.FnOK("(x/vesting/types.ClawbackVestingAccount).Validate"); ok && vf.Synthetic == "" {
		class, n := "", 0
		eachInstr(vf, func(in ssa.Instruction) {
			b, ok := in.(*ssa.BinOp)
			if !ok {
				return
			}
			isStart := func(v ssa.Value) bool {
				return backSlice(v).HasCall(func(g CallInfo) bool { return g.Name == "GetStartTime" })
			}
			isEnd := func(v ssa.Value) bool {
				return backSlice(v).HasCall(func(g CallInfo) bool { return g.Name == "GetEndTime" })
			}
			op := b.Op
			switch {
			case isStart(b.X) && isEnd(b.Y):
			case isEnd(b.X) && isStart(b.Y):
				op = flipCmp(op)
			default:
				return
			}
			n++
			class = op.String() // normalised to start OP end
		})
		// start > end (or its negation start <= end) leaves equality valid; start >= end / start < end does not
		r.Check(n == 1 && (class == ">" || class == "<="), "R14", fnID(vf)+"#accepts-start-equal-end", r.P.Pos(fnPos(vf)), "rejects start "+class+" end only",
			"Validate compares start "+class+" end: an account whose end time equals its start time is invalid, but that is exactly what a clawback before the first vesting event leaves behind (the transfer itself is right; the account that remains fails validation and an exported genesis is rejected)")
	} else {
		r.Bad("R14", "anchor/ClawbackVestingAccount.Validate", "", "not found")
	}
	_ = fmt.Sprint
}

func checkGrantBranchesAgree(r *Run, rule string) {
	P := r.P
	fn, ok := P.FnOK("(x/vesting/keeper.Keeper).CreateClawbackVestingAccount")
	if !ok {
		r.Bad(rule, "anchor/CreateClawbackVestingAccount", "", "not found")
		return
	}
	var msgParam *ssa.Parameter
	for _, p := range fn.Params {
		if namedName(deref(p.Type())) == "MsgCreateClawbackVestingAccount" {
			msgParam = p
		}
	}
	source := func(v ssa.Value) string {
		v = stripValue(v)
		if u, ok := v.(*ssa.UnOp); ok && u.Op == token.MUL {
			if fa, ok := u.X.(*ssa.FieldAddr); ok && stripValue(fa.X) == ssa.Value(msgParam) {
				_, f, _ := fieldOfAddr(fa)
				return "msg." + f
			}
		}
		if c, ok := v.(*ssa.Call); ok {
			ci := callInfo(c)
			if strings.HasPrefix(ci.Name, "Get") && len(c.Call.Args) == 1 && stripValue(c.Call.Args[0]) == ssa.Value(msgParam) {
				return "msg." + strings.TrimPrefix(ci.Name, "Get")
			}
		}
		return fmt.Sprintf("value %s@%s", v.Name(), P.Pos(v.Pos()))
	}
	var grant, fresh ssa.CallInstruction
	eachCall(fn, func(ci CallInfo) {
		switch ci.Name {
		case "addGrant":
			grant = ci.Instr
		case "NewClawbackVestingAccount":
			fresh = ci.Instr
		}
	})
	if grant == nil || fresh == nil || msgParam == nil {
		r.Bad(rule, fnID(fn)+"#branches-agree", P.Pos(fnPos(fn)), "CreateClawbackVestingAccount no longer has both an addGrant and a NewClawbackVestingAccount branch fed from its message")
		return
	}
	pick := func(c ssa.CallInstruction, name string) ssa.Value {
		sig := c.Common().Signature()
		off := 0
		if !c.Common().IsInvoke() && sig.Recv() != nil {
			off = 1
		}
		for i := 0; i < sig.Params().Len(); i++ {
			if strings.EqualFold(sig.Params().At(i).Name(), name) {
				return c.Common().Args[i+off]
			}
		}
		return nil
	}
	for _, pr := range [][2]string{{"grantLockupPeriods", "lockupPeriods"}, {"grantVestingPeriods", "vestingPeriods"}} {
		g, f := pick(grant, pr[0]), pick(fresh, pr[1])
		if g == nil || f == nil {
			r.Bad(rule, fnID(fn)+"#branches-agree/"+pr[1], P.Pos(fnPos(fn)), "parameter "+pr[0]+" / "+pr[1]+" not found in addGrant / NewClawbackVestingAccount")
			continue
		}
		sg, sf := source(g), source(f)
		r.Check(sg == sf, rule, fnID(fn)+"#branches-agree/"+pr[1], P.Pos(instrPos(grant)), "addGrant and NewClawbackVestingAccount both receive "+sg,
			fmt.Sprintf("the merge branch hands addGrant %s while the new-account branch hands NewClawbackVestingAccount %s: the defaulting of an absent schedule reaches only one of them — a merged grant with one schedule absent grows OriginalVesting without extending that schedule (reads as locked / unvested until the account's end)", sg, sf))
	}
}

func checkClockAdvances(r *Run, rule string) {
	P := r.P
	n := 0
	for _, id := range []string{"x/vesting/types.ReadSchedule", "x/vesting/types.ReadPastPeriodCount"} {
		fn, ok := P.FnOK(id)
		if !ok {
			r.Bad(rule, "anchor/"+id, "", "not found")
			continue
		}
		for _, h := range fn.Blocks {
			if !isLoopHeader(h) {
				continue
			}
			body := loopBody(h)
			for _, in := range h.Instrs {
				ph, ok := in.(*ssa.Phi)
				if !ok {
					continue
				}
				isAdvance := func(v ssa.Value) bool {
					b, ok := stripValue(v).(*ssa.BinOp)
					if !ok || b.Op != token.ADD {
						return false
					}
					if stripValue(b.X) == ssa.Value(ph) {
						return backSlice(b.Y).HasField("Period", "Length")
					}
					if stripValue(b.Y) == ssa.Value(ph) {
						return backSlice(b.X).HasField("Period", "Length")
					}
					return false
				}
				clock, all := false, true
				for i, e := range ph.Edges {
					if !body[h.Preds[i]] {
						continue
					}
					if isAdvance(e) {
						clock = true
					} else {
						all = false
					}
				}
				if !clock {
					continue
				}
				n++
				r.Check(all, rule, fmt.Sprintf("%s#clock-advances@%s", fnID(fn), h.Comment), P.Pos(instrPos(h.Instrs[0])), "every back edge carries clock + period.Length",
					"an iteration can reach the next one without adding the period's Length to the running time (a skipped or filtered period): every later period's end is then computed too early, so coins vest or unlock before their time")
			}
		}
	}
	r.Floor(rule, "schedule-reading loops with a running clock", n, 2)
}

// valueBranches: v (a bool) decides a branch, directly or through negation / boolean combination.
func valueBranches(v ssa.Value, depth int) bool {
	if v.Referrers() == nil || depth > 4 {
		return false
	}
	for _, u := range *v.Referrers() {
		switch x := u.(type) {
		case *ssa.If:
			return true
		case *ssa.UnOp:
			if valueBranches(x, depth+1) {
				return true
			}
		case *ssa.BinOp:
			if valueBranches(x, depth+1) {
				return true
			}
		case *ssa.Phi:
			if valueBranches(x, depth+1) {
				return true
			}
		}
	}
	return false
}

func checkPeriodsValidated(r *Run, rule string) {
	P := r.P
	n := 0
	for _, fn := range P.Funcs {
		if fn.Name() != "ValidateBasic" || fn.Synthetic != "" || isTestSupport(P, fn) || !strings.Contains(fnPkgPath(fn), "/x/") {
			continue
		}
		for _, h := range fn.Blocks {
			if !isLoopHeader(h) {
				continue
			}
			body := loopBody(h)
			elems := map[ssa.Value]bool{}
			field := ""
			for b := range body {
				for _, in := range b.Instrs {
					ia, ok := in.(*ssa.IndexAddr)
					if !ok {
						continue
					}
					pt, ok := ia.Type().Underlying().(*types.Pointer)
					if !ok || namedName(pt.Elem()) != "Period" {
						continue
					}
					sl := backSlice(ia.X)
					for _, f := range []string{"LockupPeriods", "VestingPeriods"} {
						if sl.HasField("", f) {
							elems[ia] = true
							field = f
						}
					}
				}
			}
			if len(elems) == 0 {
				continue
			}
			n++
			ofElem := func(v ssa.Value, fld string) bool {
				sl := backSlice(v)
				has := false
				sl.Any(func(x ssa.Value) bool {
					if elems[x] {
						has = true
					}
					return has
				})
				return has && sl.HasField("Period", fld)
			}
			isAmountCheck := func(in ssa.Instruction) bool {
				c, ok := in.(*ssa.Call)
				if !ok {
					return false
				}
				ci := callInfo(c)
				if !(ci.Name == "IsValid" || ci.Name == "Validate") || ci.Recv != "Coins" {
					return false
				}
				a := callArgs(c)
				return len(a) > 0 && ofElem(a[0], "Amount") && valueBranches(c, 0)
			}
			isLengthCheck := func(in ssa.Instruction) bool {
				b, ok := in.(*ssa.BinOp)
				if !ok {
					return false
				}
				switch b.Op {
				case token.LSS, token.LEQ, token.GTR, token.GEQ:
				default:
					return false
				}
				return (ofElem(b.X, "Length") || ofElem(b.Y, "Length")) && valueBranches(b, 0)
			}
			next := func(in ssa.Instruction) bool { return in == h.Instrs[0] }
			for _, ev := range []struct {
				name string
				is   func(ssa.Instruction) bool
				bad  string
			}{
				{"amount-valid", isAmountCheck, "an iteration over " + field + " can complete without branching on IsValid of that period's Amount: a zero or negative period amount that another period compensates passes validation, and the stored schedule is no longer non-decreasing (vested rises above the grant, then falls)"},
				{"length-positive", isLengthCheck, "an iteration over " + field + " can complete without testing that period's Length: a zero or negative length makes release events run backwards in time"},
			} {
				var w []ssa.Instruction
				for _, s := range h.Succs {
					if !body[s] || s == h {
						continue
					}
					if p := (PathQuery{Fn: fn, StartBlock: s, Block: ev.is, Target: next}).Search(); p != nil {
						w = p
					}
				}
				r.Check(w == nil, rule, fmt.Sprintf("%s#%s/%s", fnID(fn), field, ev.name), P.Pos(instrPos(h.Instrs[0])), "checked in every iteration", ev.bad, P.witness(w)...)
			}
		}
	}
	r.Floor(rule, "ValidateBasic loops over schedule periods", n, 4)
	// the running end of a schedule is an int64 sum of its period lengths: it must be shown to fit
	hasOverflowTest := func(f *ssa.Function) bool {
		found := false
		eachInstr(f, func(in ssa.Instruction) {
			b, ok := in.(*ssa.BinOp)
			if !ok || found {
				return
			}
			switch b.Op {
			case token.LSS, token.LEQ, token.GTR, token.GEQ:
			default:
				return
			}
			isLen := func(v ssa.Value) bool { return backSlice(v).HasField("Period", "Length") }
			isMax := func(v ssa.Value) bool {
				return backSlice(v).Any(func(x ssa.Value) bool {
					c, ok := x.(*ssa.Const)
					if !ok || c.Value == nil || c.Value.Kind().String() != "Int" {
						return false
					}
					return c.Value.ExactString() == "9223372036854775807"
				})
			}
			if ((isLen(b.X) && isMax(b.Y)) || (isLen(b.Y) && isMax(b.X))) && valueBranches(b, 0) {
				found = true
			}
		})
		return found
	}
	nEnd := 0
	for _, fn := range P.Funcs {
		if fn.Name() != "ValidateBasic" || fn.Synthetic != "" || isTestSupport(P, fn) || !strings.Contains(fnPkgPath(fn), "/x/vesting") {
			continue
		}
		for _, field := range []string{"LockupPeriods", "VestingPeriods"} {
			reads := false
			eachInstr(fn, func(in ssa.Instruction) {
				if v, ok := in.(ssa.Value); ok {
					if _, f, ok := fieldOfAddr(v); ok && f == field {
						reads = true
					}
					if _, f, ok := fieldOfValue(v); ok && f == field {
						reads = true
					}
				}
			})
			if !reads {
				continue
			}
			nEnd++
			isTest := func(in ssa.Instruction) bool {
				c, ok := in.(ssa.CallInstruction)
				if !ok {
					return false
				}
				callee := c.Common().StaticCallee()
				if callee == nil || !isHaqqPath(fnPkgPath(callee)) || !errHandled(c) || !hasOverflowTest(callee) {
					return false
				}
				for _, a := range c.Common().Args {
					if backSlice(a).HasField("", field) {
						return true
					}
				}
				return false
			}
			var w []ssa.Instruction
			if !hasOverflowTest(fn) {
				w = PathQuery{Fn: fn, Block: isTest, Target: func(x ssa.Instruction) bool {
					ret, ok := x.(*ssa.Return)
					return ok && classifyExit(ret) != ExitFailure
				}}.Search()
			}
			r.Check(w == nil, rule, fmt.Sprintf("%s#%s/end-fits-int64", fnID(fn), field), P.Pos(fnPos(fn)), "every success exit follows an error-checked test of the period lengths against MaxInt64",
				"the message is accepted without a check that the running sum of "+field+"' lengths fits an int64: two periods of 2^62 s wrap the schedule's end time to a negative value, ReadSchedule's `readTime >= endTime` shortcut then reports everything as vested/unlocked, and every grant merged later inherits the wrapped end", P.witness(w)...)
		}
	}
	r.Floor(rule, "period lists accepted by vesting messages", nEnd, 4)
}

func checkMergeBeforeUpdate(r *Run, rule string) {
	P := r.P
	ag, ok := P.FnOK("(x/vesting/keeper.Keeper).addGrant")
	if !ok {
		r.Bad(rule, "anchor/addGrant", "", "not found")
		return
	}
	isMerge := isCallMatching(func(ci CallInfo) bool { return ci.Name == "DisjunctPeriods" })
	n := 0
	var w []ssa.Instruction
	what := ""
	eachInstr(ag, func(in ssa.Instruction) {
		st, ok := in.(*ssa.Store)
		if !ok {
			return
		}
		_, f, ok := fieldOfAddr(st.Addr)
		if !ok || !(f == "StartTime" || f == "EndTime" || f == "LockupPeriods" || f == "VestingPeriods") {
			return
		}
		n++
		if p := (PathQuery{Fn: ag, Start: in, Target: isMerge}).Search(); p != nil && w == nil {
			w, what = p, f
		}
	})
	nm := len(findCalls(ag, func(ci CallInfo) bool { return ci.Name == "DisjunctPeriods" }))
	r.Check(w == nil && nm >= 2, rule, fnID(ag)+"#merges-before-write-back", P.Pos(fnPos(ag)), fmt.Sprintf("%d merges, all before the %d schedule stores", nm, n),
		"addGrant writes the account's "+what+" back before a DisjunctPeriods call (or no longer merges both schedules): the later merge reads the already updated account and re-bases its existing release events — a back-dated grant moves every old vesting event earlier, unlocking unvested coins", P.witness(w)...)
	r.Floor(rule, "schedule stores in addGrant", n, 4)
}

// checkGrantStart: every addGrant call passes the grant's own start time. DisjunctPeriods reads each
// schedule's periods relative to that schedule's start and aligns the two itself; a start that is mixed
// with the account's start (min/max of both) moves every release event of the grant by the difference.
func checkGrantStart(r *Run, rule string) {
	P := r.P
	ag, ok := P.FnOK("(x/vesting/keeper.Keeper).addGrant")
	if !ok {
		r.Bad(rule, "anchor/addGrant", "", "not found")
		return
	}
	n := 0
	for _, fn := range P.Funcs {
		if isTestSupport(P, fn) || fn.Synthetic != "" {
			continue
		}
		eachCall(fn, func(ci CallInfo) {
			if ci.Static != ag {
				return
			}
			n++
			arg := argN(ci.Instr, 2) // (ctx, va, grantStartTime, …)
			if p, ok := ag.Params[3].Object().(*types.Var); !ok || p.Name() != "grantStartTime" {
				r.Fail("addGrant's third parameter is %v, expected grantStartTime", ag.Params[3].Name())
			}
			sl := backSlice(arg)
			fromAcc := sl.HasField("ClawbackVestingAccount", "StartTime") || sl.HasCall(func(g CallInfo) bool { return g.Name == "GetStartTime" && strings.HasSuffix(g.Recv, "VestingAccount") && !strings.HasPrefix(g.Recv, "Msg") })
			own := false
			sl.Any(func(v ssa.Value) bool {
				if p, ok := v.(*ssa.Parameter); ok && p.Parent() == fn && namedName(p.Type()) != "Context" && namedName(p.Type()) != "Keeper" {
					own = true
				}
				return false
			})
			r.Check(!fromAcc && own, rule, fnID(fn)+"#addGrant-start", P.Pos(instrPos(ci.Instr)), "grant start derives from the caller's own input only",
				fmt.Sprintf("the grant start time given to addGrant %s: the grant's periods are then read relative to a start that is not the grant's (every release event of the merged grant moves by the difference — earlier when the account started first)", map[bool]string{true: "depends on the target account's StartTime", false: "does not derive from a parameter of the caller"}[fromAcc]))
		})
	}
	r.Floor(rule, "addGrant call sites", n, 2)
}

func flipCmp(op token.Token) token.Token {
	switch op {
	case token.LSS:
		return token.GTR
	case token.GTR:
		return token.LSS
	case token.LEQ:
		return token.GEQ
	case token.GEQ:
		return token.LEQ
	}
	return op
}

func keysOf(m map[string]bool) []string {
	var out []string
	for k := range m {
		out = append(out, k)
	}
	sort.Strings(out)
	return out
}

// checkBoundary: every ordering comparison in fn between a value derived from Period.Length (the running
// end of a period) and the time parameter puts equality on the "ended" side: normalised to `end OP t`,
// OP is <= or > (a comparison and its negation have the same class, so branch polarity does not matter).
func checkBoundary(r *Run, rule string, fn *ssa.Function, timeParam string) {
	P := r.P
	n := 0
	eachInstr(fn, func(in ssa.Instruction) {
		b, ok := in.(*ssa.BinOp)
		if !ok {
			return
		}
		switch b.Op {
		case token.LSS, token.GTR, token.LEQ, token.GEQ:
		default:
			return
		}
		sx, sy := backSlice(b.X), backSlice(b.Y)
		lx, ly := sx.HasField("Period", "Length"), sy.HasField("Period", "Length")
		tx, ty := sx.HasParam(timeParam), sy.HasParam(timeParam)
		op := b.Op
		switch {
		case lx && !tx && ty && !ly:
		case ly && !ty && tx && !lx:
			op = flipCmp(op)
		default:
			return
		}
		n++
		r.Check(op == token.LEQ || op == token.GTR, rule, fmt.Sprintf("%s#period-end-vs-%s-%d", fnID(fn), timeParam, n), P.Pos(instrPos(b)),
			"a period ending exactly at "+timeParam+" counts as ended", "normalised comparison is `periodEnd "+op.String()+" "+timeParam+"`: a period that ends exactly at "+timeParam+" is treated as not yet ended here, while the schedule functions define a period as ended when end <= t (boundary events are dropped or double-counted between siblings)")
	})
	r.Floor(rule, "period-end comparisons in "+fn.Name(), n, 1)
}

// onlyMsgField: the slice contains field f of message struct sn and no other field of that struct —
// the value is the message's f and is not mixed with (or replaced by) another field of the message.
func onlyMsgField(s *Slice, sn, f string) bool {
	has, other := false, false
	s.Any(func(v ssa.Value) bool {
		for _, get := range []func(ssa.Value) (string, string, bool){fieldOfAddr, fieldOfValue} {
			if n, ff, ok := get(v); ok && n == sn {
				if ff == f {
					has = true
				} else {
					other = true
				}
			}
		}
		return false
	})
	return has && !other
}

// checkMergeEmits (C09 R7): DisjunctPeriods is the union of release events. Structural part: the emitting
// closure appends exactly when it is called (no path around the append), and no emitted period is rewritten
// except under an equality of event times. Folding an event into a period emitted for a different time moves
// the release (zero-length periods of a later-starting grant would unlock at the earlier schedule's event).
func checkMergeEmits(r *Run, rule string) {
	P := r.P
	dp, ok := P.FnOK("x/vesting/types.DisjunctPeriods")
	if !ok {
		r.Bad(rule, "anchor/DisjunctPeriods", "", "not found")
		return
	}
	isPeriodList := func(t types.Type) bool {
		if p, ok := t.Underlying().(*types.Pointer); ok {
			t = p.Elem()
		}
		sl, ok := t.Underlying().(*types.Slice)
		return ok && namedName(sl.Elem()) == "Period"
	}
	// time-equality edges: x == y where both are int64 and at least one is a parameter of the function or a captured/loaded time
	timeEq := func(fn *ssa.Function) []Edge {
		eq, _ := condEdgesInfo(fn, func(x, y ssa.Value) (string, bool) {
			bx, ok1 := x.Type().Underlying().(*types.Basic)
			by, ok2 := y.Type().Underlying().(*types.Basic)
			if !ok1 || !ok2 || bx.Kind() != types.Int64 || by.Kind() != types.Int64 {
				return "", false
			}
			if _, isC := x.(*ssa.Const); isC {
				return "", false
			}
			if _, isC := y.(*ssa.Const); isC {
				return "", false
			}
			// neither side may be a Period.Length itself (a length is a duration, not an event time)
			for _, v := range []ssa.Value{x, y} {
				if u, ok := stripValue(v).(*ssa.UnOp); ok && u.Op == token.MUL {
					if _, f, ok := fieldOfAddr(u.X); ok && f == "Length" {
						return "", false
					}
				}
				if _, f, ok := fieldOfValue(stripValue(v)); ok && f == "Length" {
					return "", false
				}
			}
			return "time-equality", true
		})
		var out []Edge
		for _, e := range eq {
			out = append(out, e.E)
		}
		return out
	}
	nEmit, nInPlace := 0, 0
	for _, fn := range withAnon(dp) {
		var appendStores []ssa.Instruction
		var inPlace []ssa.Instruction
		eachInstr(fn, func(in ssa.Instruction) {
			st, ok := in.(*ssa.Store)
			if !ok {
				return
			}
			// append to the merged list: *periods = append(*periods, …)
			if isPeriodList(st.Addr.Type()) {
				if c, ok := stripValue(st.Val).(*ssa.Call); ok {
					if b, ok := c.Call.Value.(*ssa.Builtin); ok && b.Name() == "append" {
						appendStores = append(appendStores, in)
						return
					}
				}
			}
			// in-place write into an element of a period list that is not a parameter (= the result under construction)
			root := st.Addr
			for {
				switch x := root.(type) {
				case *ssa.FieldAddr:
					root = x.X
					continue
				case *ssa.IndexAddr:
					if isPeriodList(x.X.Type()) {
						if _, isParam := stripValue(x.X).(*ssa.Parameter); !isParam {
							// locally built literal slices (append argument construction) are Alloc-rooted arrays, not lists
							inPlace = append(inPlace, in)
						}
					}
				}
				break
			}
		})
		bypass := edgeSet(timeEq(fn))
		if len(appendStores) > 0 && fn != dp {
			nEmit++
			isApp := func(in ssa.Instruction) bool {
				for _, a := range appendStores {
					if a == in {
						return true
					}
				}
				return false
			}
			isRet := func(in ssa.Instruction) bool { _, ok := in.(*ssa.Return); return ok }
			w := PathQuery{Fn: fn, Block: isApp, Target: isRet, DelEdge: bypass}.Search()
			r.Check(w == nil, rule, fnID(fn)+"#appends-on-every-path", P.Pos(fnPos(fn)), "the emitting closure appends a period on every path (except where the event time equals the last emitted time)",
				"a path through the emitting closure of DisjunctPeriods returns without appending a period and without a time-equality guard: a consumed release event is dropped or folded into an event of a different time, so the merged schedule is no longer the union of both schedules' release events", P.witness(w)...)
		}
		for i, st := range inPlace {
			nInPlace++
			isThis := func(in ssa.Instruction) bool { return in == st }
			w := PathQuery{Fn: fn, Target: isThis, DelEdge: bypass}.Search()
			r.Check(w == nil, rule, fmt.Sprintf("%s#in-place-%d", fnID(fn), i+1), P.Pos(instrPos(st)), "an emitted period is rewritten only where the event time equals the last emitted time",
				"DisjunctPeriods rewrites an already-emitted period without comparing the event's time with the last emitted time: the amount is released at a different instant than its own schedule says", P.witness(w)...)
		}
	}
	r.Count("R7 emitting closures of DisjunctPeriods", nEmit)
	r.Count("R7 in-place writes to emitted periods", nInPlace)
	r.Floor(rule, "emitting closures of DisjunctPeriods", nEmit, 1)
}
