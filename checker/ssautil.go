package main

import (
	"fmt"
	"go/constant"
	"go/token"
	"go/types"
	"os"
	"strings"

	"golang.org/x/tools/go/ssa"
)

// ---------- call identification ----------

// CallInfo describes the resolved callee of a call instruction.
type CallInfo struct {
	Instr   ssa.CallInstruction
	Static  *ssa.Function // non-nil for static calls (incl. closures called directly)
	Obj     *types.Func   // declared function/method object (static or interface method)
	Invoke  bool          // interface dispatch
	Name    string        // method/function name
	PkgPath string        // package of Obj
	Recv    string        // receiver named type (without *), or interface name for invoke
	Builtin string
	ViaVar  bool // called through a package-level func variable (Obj is nil)
}

func callInfo(c ssa.CallInstruction) CallInfo {
	cc := c.Common()
	ci := CallInfo{Instr: c}
	if cc.IsInvoke() {
		ci.Invoke = true
		ci.Obj = cc.Method
		ci.Name = cc.Method.Name()
		if cc.Method.Pkg() != nil {
			ci.PkgPath = cc.Method.Pkg().Path()
		}
		ci.Recv = recvTypeName(cc.Method)
		if ci.Recv == "" {
			// method of an unnamed / embedded interface: use static type of the receiver value
			ci.Recv = namedName(cc.Value.Type())
		}
		return ci
	}
	if b, ok := cc.Value.(*ssa.Builtin); ok {
		ci.Builtin = b.Name()
		ci.Name = b.Name()
		return ci
	}
	fn := cc.StaticCallee()
	if fn == nil {
		// call through a package-level function variable (e.g. sdk.ZeroInt = math.ZeroInt, sdkerrors.Wrap = errorsmod.Wrap)
		if u, ok := cc.Value.(*ssa.UnOp); ok && u.Op == token.MUL {
			if g, ok := u.X.(*ssa.Global); ok && g.Pkg != nil {
				ci.Name = g.Name()
				ci.PkgPath = g.Pkg.Pkg.Path()
				ci.ViaVar = true
			}
		}
		return ci
	}
	ci.Static = fn
	o := fn.Object()
	if o == nil && fn.Origin() != nil {
		o = fn.Origin().Object()
	}
	if f, ok := o.(*types.Func); ok {
		ci.Obj = f
		ci.Name = f.Name()
		if f.Pkg() != nil {
			ci.PkgPath = f.Pkg().Path()
		}
		ci.Recv = recvTypeName(f)
	} else {
		ci.Name = fn.Name()
		ci.PkgPath = fnPkgPath(fn)
	}
	// bound method wrappers / thunks: name like "(T).M$bound"
	return ci
}

func recvTypeName(f *types.Func) string {
	sig, ok := f.Type().(*types.Signature)
	if !ok || sig.Recv() == nil {
		return ""
	}
	return namedName(sig.Recv().Type())
}

func namedName(t types.Type) string {
	for {
		switch tt := t.(type) {
		case *types.Pointer:
			t = tt.Elem()
			continue
		case *types.Named:
			return tt.Obj().Name()
		case *types.Alias:
			t = types.Unalias(tt)
			continue
		}
		return ""
	}
}

func namedPkgPath(t types.Type) string {
	for {
		switch tt := t.(type) {
		case *types.Pointer:
			t = tt.Elem()
			continue
		case *types.Named:
			if tt.Obj().Pkg() != nil {
				return tt.Obj().Pkg().Path()
			}
			return ""
		case *types.Alias:
			t = types.Unalias(tt)
			continue
		}
		return ""
	}
}

// String form used in reports: pkg.(Recv).Name
func (ci CallInfo) String() string {
	p := strings.TrimPrefix(ci.PkgPath, haqqMod+"/")
	if ci.Builtin != "" {
		return "builtin " + ci.Builtin
	}
	if ci.Name == "" {
		return "<dynamic call>"
	}
	if ci.Recv != "" {
		if ci.Invoke {
			return fmt.Sprintf("%s.%s.%s (interface)", p, ci.Recv, ci.Name)
		}
		return fmt.Sprintf("%s.(%s).%s", p, ci.Recv, ci.Name)
	}
	return p + "." + ci.Name
}

// CallPred matches call instructions.
type CallPred func(ci CallInfo) bool

// anyMethod: static or interface method with one of the names (receiver arbitrary).
// This is the "method by signature" identity of DESIGN §2.1 — each Haqq module declares
// its own BankKeeper interface, so the method name (+ optional arity) is the stable identity.
func anyMethod(names ...string) CallPred {
	return func(ci CallInfo) bool {
		if ci.Obj == nil {
			return false
		}
		sig := ci.Obj.Type().(*types.Signature)
		if sig.Recv() == nil {
			return false
		}
		for _, n := range names {
			if ci.Name == n {
				return true
			}
		}
		return false
	}
}

func pkgFunc(pkgSuffix string, names ...string) CallPred {
	return func(ci CallInfo) bool {
		if ci.Obj == nil || ci.Recv != "" {
			return false
		}
		if !pathHasSuffix(ci.PkgPath, pkgSuffix) {
			return false
		}
		for _, n := range names {
			if ci.Name == n {
				return true
			}
		}
		return false
	}
}

func methodOf(pkgSuffix, recv string, names ...string) CallPred {
	return func(ci CallInfo) bool {
		if ci.Obj == nil || ci.Recv != recv {
			return false
		}
		if pkgSuffix != "" && !pathHasSuffix(ci.PkgPath, pkgSuffix) {
			return false
		}
		for _, n := range names {
			if ci.Name == n {
				return true
			}
		}
		return false
	}
}

func orPred(ps ...CallPred) CallPred {
	return func(ci CallInfo) bool {
		for _, p := range ps {
			if p(ci) {
				return true
			}
		}
		return false
	}
}

func pathHasSuffix(p, suffix string) bool {
	return p == suffix || strings.HasSuffix(p, "/"+suffix)
}

// ---------- iteration helpers ----------

func eachInstr(fn *ssa.Function, f func(ssa.Instruction)) {
	for _, b := range fn.Blocks {
		for _, in := range b.Instrs {
			f(in)
		}
	}
}

func eachCall(fn *ssa.Function, f func(CallInfo)) {
	eachInstr(fn, func(in ssa.Instruction) {
		if c, ok := in.(ssa.CallInstruction); ok {
			f(callInfo(c))
		}
	})
}

// outermost returns the enclosing declared function of an anonymous function.
func outermost(fn *ssa.Function) *ssa.Function {
	for fn.Parent() != nil {
		fn = fn.Parent()
	}
	return fn
}

// withAnon returns fn and all functions lexically nested in it.
func withAnon(fn *ssa.Function) []*ssa.Function {
	out := []*ssa.Function{fn}
	for _, a := range fn.AnonFuncs {
		out = append(out, withAnon(a)...)
	}
	return out
}

// ---------- constants ----------

func constString(v ssa.Value) (string, bool) {
	switch x := v.(type) {
	case *ssa.Const:
		if x.Value != nil && x.Value.Kind() == constant.String {
			return constant.StringVal(x.Value), true
		}
	case *ssa.ChangeType:
		return constString(x.X)
	case *ssa.Convert:
		return constString(x.X)
	}
	return "", false
}

func isNilConst(v ssa.Value) bool {
	c, ok := v.(*ssa.Const)
	return ok && c.Value == nil
}

func isErrorType(t types.Type) bool {
	n, ok := t.(*types.Named)
	return ok && n.Obj().Pkg() == nil && n.Obj().Name() == "error"
}

// ---------- positions ----------

func instrPos(in ssa.Instruction) token.Pos {
	if in.Pos().IsValid() {
		return in.Pos()
	}
	// fall back to operands / block neighbours
	if v, ok := in.(ssa.Value); ok {
		_ = v
	}
	b := in.Block()
	if b != nil {
		idx := -1
		for i, x := range b.Instrs {
			if x == in {
				idx = i
				break
			}
		}
		for i := idx - 1; i >= 0; i-- {
			if b.Instrs[i].Pos().IsValid() {
				return b.Instrs[i].Pos()
			}
		}
		for i := idx + 1; i >= 0 && i < len(b.Instrs); i++ {
			if b.Instrs[i].Pos().IsValid() {
				return b.Instrs[i].Pos()
			}
		}
	}
	if in.Parent() != nil {
		return fnPos(in.Parent())
	}
	return token.NoPos
}

// ---------- value helpers ----------

// stripValue removes representation-only wrappers.
func stripValue(v ssa.Value) ssa.Value {
	for {
		switch x := v.(type) {
		case *ssa.ChangeType:
			v = x.X
		case *ssa.ChangeInterface:
			v = x.X
		case *ssa.MakeInterface:
			v = x.X
		case *ssa.Convert:
			v = x.X
		default:
			return v
		}
	}
}

// addrRoot strips FieldAddr/IndexAddr to the base pointer.
func addrRoot(v ssa.Value) ssa.Value {
	for {
		switch x := v.(type) {
		case *ssa.FieldAddr:
			v = x.X
		case *ssa.IndexAddr:
			v = x.X
		case *ssa.ChangeType:
			v = x.X
		default:
			return v
		}
	}
}

// fieldOfAddr: if v is &x.f returns struct type name and field name.
func fieldOfAddr(v ssa.Value) (structName, field string, ok bool) {
	fa, ok := v.(*ssa.FieldAddr)
	if !ok {
		return "", "", false
	}
	pt, ok := fa.X.Type().Underlying().(*types.Pointer)
	if !ok {
		return "", "", false
	}
	st, ok := pt.Elem().Underlying().(*types.Struct)
	if !ok {
		return "", "", false
	}
	return namedName(pt.Elem()), st.Field(fa.Field).Name(), true
}

func fieldOfValue(v ssa.Value) (structName, field string, ok bool) {
	f, ok := v.(*ssa.Field)
	if !ok {
		return "", "", false
	}
	st, ok := f.X.Type().Underlying().(*types.Struct)
	if !ok {
		return "", "", false
	}
	return namedName(f.X.Type()), st.Field(f.Field).Name(), true
}

// storesTo returns the values stored into the memory rooted at alloc (whole or any field).
func storesInto(root ssa.Value) []*ssa.Store {
	var out []*ssa.Store
	seen := map[ssa.Value]bool{}
	var walk func(a ssa.Value)
	walk = func(a ssa.Value) {
		if seen[a] {
			return
		}
		seen[a] = true
		refs := a.Referrers()
		if refs == nil {
			return
		}
		for _, r := range *refs {
			switch x := r.(type) {
			case *ssa.Store:
				if x.Addr == a {
					out = append(out, x)
				}
			case *ssa.FieldAddr:
				if x.X == a {
					walk(x)
				}
			case *ssa.IndexAddr:
				if x.X == a {
					walk(x)
				}
			}
		}
	}
	walk(root)
	return out
}

// ---------- backward slice (FLOW) ----------

type Slice struct {
	Vals map[ssa.Value]bool
}

// backSlice computes the intra-procedural backward dependence closure of v:
// everything v's value may be computed from. Calls depend on all their arguments
// (and the receiver). Loads depend on the address computation and, for local allocs,
// on every value stored into the alloc. Free variables are mapped to their bindings
// in the enclosing function.
func backSlice(vs ...ssa.Value) *Slice {
	s := &Slice{Vals: map[ssa.Value]bool{}}
	var work []ssa.Value
	push := func(v ssa.Value) {
		if v == nil || s.Vals[v] {
			return
		}
		s.Vals[v] = true
		work = append(work, v)
	}
	for _, v := range vs {
		push(v)
	}
	for len(work) > 0 {
		v := work[len(work)-1]
		work = work[:len(work)-1]
		switch x := v.(type) {
		case *ssa.Phi:
			for _, e := range x.Edges {
				push(e)
			}
		case *ssa.UnOp:
			if x.Op == token.MUL {
				root := addrRoot(x.X)
				if al, ok := root.(*ssa.Alloc); ok {
					// load from a local: depends on the values that may have been written before the load
					// (reaching definitions), not on the alloc's later history
					for _, w := range allocWritersBefore(al, x) {
						push(w)
					}
					// the address computation itself is part of the slice (field selections are what
					// HasField looks for), but the alloc is not expanded flow-insensitively
					for a := x.X; a != nil; {
						s.Vals[a] = true
						switch y := a.(type) {
						case *ssa.IndexAddr:
							push(y.Index)
							a = y.X
						case *ssa.FieldAddr:
							a = y.X
						default:
							a = nil
						}
					}
					continue
				}
				push(x.X)
				if fv, ok := root.(*ssa.FreeVar); ok {
					// captured variable: values stored in the parent
					if b := freeVarBinding(fv); b != nil {
						push(b)
						if al, ok := b.(*ssa.Alloc); ok {
							for _, st := range storesInto(al) {
								push(st.Val)
							}
						}
					}
				}
			} else {
				push(x.X)
			}
		case *ssa.FreeVar:
			if b := freeVarBinding(x); b != nil {
				push(b)
			}
		case *ssa.MakeSlice:
			// content copied in by the copy builtin
			if x.Referrers() != nil {
				for _, ref := range *x.Referrers() {
					if c, ok := ref.(*ssa.Call); ok {
						if b, ok := c.Call.Value.(*ssa.Builtin); ok && b.Name() == "copy" && len(c.Call.Args) == 2 && c.Call.Args[0] == ssa.Value(x) {
							push(c.Call.Args[1])
						}
					}
				}
			}
			for _, op := range x.Operands(nil) {
				if op != nil && *op != nil {
					push(*op)
				}
			}
		case *ssa.Alloc:
			// the address of a local escapes into the slice (passed by pointer): its content
			// depends on everything stored into it and on the arguments of every call it was handed to
			for _, w := range allocWriters(x) {
				push(w)
			}
		case ssa.Instruction:
			for _, op := range x.Operands(nil) {
				if op != nil && *op != nil {
					push(*op)
				}
			}
		}
	}
	return s
}

func freeVarBinding(fv *ssa.FreeVar) ssa.Value {
	fn := fv.Parent()
	par := fn.Parent()
	if par == nil {
		return nil
	}
	idx := -1
	for i, f := range fn.FreeVars {
		if f == fv {
			idx = i
		}
	}
	if idx < 0 {
		return nil
	}
	var found ssa.Value
	eachInstr(par, func(in ssa.Instruction) {
		if mc, ok := in.(*ssa.MakeClosure); ok && mc.Fn == fn && idx < len(mc.Bindings) {
			found = mc.Bindings[idx]
		}
	})
	return found
}

func (s *Slice) Any(pred func(ssa.Value) bool) bool {
	for v := range s.Vals {
		if pred(v) {
			return true
		}
	}
	return false
}

func (s *Slice) Has(v ssa.Value) bool { return s.Vals[v] }

// HasField: the slice selects struct field `field` of a struct named structName ("" = any).
func (s *Slice) HasField(structName, field string) bool {
	return s.Any(func(v ssa.Value) bool {
		if sn, f, ok := fieldOfAddr(v); ok && f == field && (structName == "" || sn == structName) {
			return true
		}
		if sn, f, ok := fieldOfValue(v); ok && f == field && (structName == "" || sn == structName) {
			return true
		}
		return false
	})
}

// HasCall: the slice contains the result of a call matching pred.
func (s *Slice) HasCall(pred CallPred) bool {
	return s.Any(func(v ssa.Value) bool {
		if c, ok := v.(*ssa.Call); ok {
			return pred(callInfo(c))
		}
		return false
	})
}

func (s *Slice) HasParam(name string) bool {
	return s.Any(func(v ssa.Value) bool {
		p, ok := v.(*ssa.Parameter)
		return ok && p.Name() == name
	})
}

// callArgs returns the user-visible arguments (receiver first for static method calls, and for
// invoke the receiver value first).
func callArgs(c ssa.CallInstruction) []ssa.Value {
	cc := c.Common()
	if cc.IsInvoke() {
		return append([]ssa.Value{cc.Value}, cc.Args...)
	}
	return cc.Args
}

// argN returns the n-th declared parameter argument (0-based, excluding the receiver).
func argN(c ssa.CallInstruction, n int) ssa.Value {
	cc := c.Common()
	args := cc.Args
	if !cc.IsInvoke() {
		if sig, ok := cc.Value.Type().Underlying().(*types.Signature); ok && sig.Recv() != nil {
			// static method call: receiver is Args[0]
			if fn := cc.StaticCallee(); fn != nil && fn.Signature.Recv() != nil {
				args = args[1:]
			}
		} else if fn := cc.StaticCallee(); fn != nil && fn.Signature.Recv() != nil {
			args = args[1:]
		}
	}
	if n < len(args) {
		return args[n]
	}
	return nil
}

// allocWriters: values that may flow into the memory of a local alloc: stored values, and the
// arguments of calls that receive (a derived pointer to) the alloc.
func allocWriters(al *ssa.Alloc) []ssa.Value {
	var out []ssa.Value
	seen := map[ssa.Value]bool{}
	var walk func(a ssa.Value)
	walk = func(a ssa.Value) {
		if seen[a] {
			return
		}
		seen[a] = true
		refs := a.Referrers()
		if refs == nil {
			return
		}
		for _, r := range *refs {
			switch x := r.(type) {
			case *ssa.Store:
				if x.Addr == a {
					out = append(out, x.Val)
				}
			case *ssa.FieldAddr:
				if x.X == a {
					walk(x)
				}
			case *ssa.IndexAddr:
				if x.X == a {
					walk(x)
				}
			case *ssa.MakeInterface:
				walk(x)
			case *ssa.ChangeType:
				walk(x)
			case ssa.CallInstruction:
				for _, arg := range callArgs(x) {
					if arg != a {
						out = append(out, arg)
					}
				}
			}
		}
	}
	walk(al)
	return out
}

func readFile(p string) ([]byte, error) { return os.ReadFile(p) }

// instrMayPrecede: there is a CFG path on which a executes before b (same function).
func instrMayPrecede(a, b ssa.Instruction) bool {
	ba, bb := a.Block(), b.Block()
	if ba == nil || bb == nil || ba.Parent() != bb.Parent() {
		return true
	}
	if ba == bb {
		ia, ib := -1, -1
		for i, in := range ba.Instrs {
			if in == a {
				ia = i
			}
			if in == b {
				ib = i
			}
		}
		if ia < ib {
			return true
		}
		// later in the same block: only via a cycle back to the block
		for _, s := range ba.Succs {
			if blockReachesMemo(s, ba) {
				return true
			}
		}
		return false
	}
	return blockReachesMemo(ba, bb)
}

var reachMemo = map[[2]*ssa.BasicBlock]bool{}

func blockReachesMemo(from, to *ssa.BasicBlock) bool {
	k := [2]*ssa.BasicBlock{from, to}
	if v, ok := reachMemo[k]; ok {
		return v
	}
	seen := map[*ssa.BasicBlock]bool{}
	work := []*ssa.BasicBlock{from}
	found := false
	for len(work) > 0 && !found {
		x := work[len(work)-1]
		work = work[:len(work)-1]
		if x == to {
			found = true
			break
		}
		if seen[x] {
			continue
		}
		seen[x] = true
		work = append(work, x.Succs...)
	}
	reachMemo[k] = found
	return found
}

// allocWritersBefore: values that may have flowed into the local alloc before instruction `at`:
// stored values and the arguments of calls that received (a derived pointer to) the alloc.
func allocWritersBefore(al *ssa.Alloc, at ssa.Instruction) []ssa.Value {
	var out []ssa.Value
	seen := map[ssa.Value]bool{}
	var walk func(a ssa.Value)
	walk = func(a ssa.Value) {
		if seen[a] {
			return
		}
		seen[a] = true
		refs := a.Referrers()
		if refs == nil {
			return
		}
		for _, r := range *refs {
			switch x := r.(type) {
			case *ssa.Store:
				if x.Addr == a && instrMayPrecede(x, at) {
					out = append(out, x.Val)
				}
			case *ssa.FieldAddr:
				if x.X == a {
					walk(x)
				}
			case *ssa.IndexAddr:
				if x.X == a {
					walk(x)
				}
			case *ssa.MakeInterface:
				walk(x)
			case *ssa.ChangeType:
				walk(x)
			case ssa.CallInstruction:
				if instrMayPrecede(x, at) {
					for _, arg := range callArgs(x) {
						if arg != a {
							out = append(out, arg)
						}
					}
				}
			}
		}
	}
	walk(al)
	return out
}

// machineWordOps lists machine-word integer arithmetic (of the given operators) in fn and in the
// functions of the same package it calls statically (to the given depth). Used by the
// "money is computed in arbitrary precision" rules: a product or sum of 64-bit quantities wraps silently.
func machineWordOps(P *Prog, fn *ssa.Function, depth int, ops map[token.Token]bool, seen map[*ssa.Function]bool) []string {
	if fn == nil || fn.Blocks == nil || seen[fn] {
		return nil
	}
	seen[fn] = true
	var out []string
	for _, f := range withAnon(fn) {
		eachInstr(f, func(in ssa.Instruction) {
			switch x := in.(type) {
			case *ssa.BinOp:
				if !ops[x.Op] {
					return
				}
				if bt, ok := x.Type().Underlying().(*types.Basic); ok && bt.Info()&types.IsInteger != 0 {
					// loop counters and index arithmetic: an operand that is a small constant (|c| <= 1) is not money arithmetic
					for _, o := range []ssa.Value{x.X, x.Y} {
						if c, ok := o.(*ssa.Const); ok && c.Value != nil {
							if v, ok2 := constant.Int64Val(constant.ToInt(c.Value)); ok2 && v >= -1 && v <= 1 {
								return
							}
						}
					}
					out = append(out, fmt.Sprintf("%s %s in %s at %s", bt.Name(), x.Op, fnID(f), P.Pos(instrPos(in))))
				}
			case ssa.CallInstruction:
				ci := callInfo(x)
				if depth > 0 && ci.Static != nil && ci.Static.Blocks != nil && fnPkgPath(ci.Static) == fnPkgPath(fn) {
					out = append(out, machineWordOps(P, ci.Static, depth-1, ops, seen)...)
				}
			}
		})
	}
	return out
}

// commitBodyFn: the function of x/evm/statedb that holds the write-back loop — (*StateDB).commit when Commit/Flush
// delegate to it, otherwise (*StateDB).Commit itself.
func commitBodyFn(P *Prog) (*ssa.Function, bool) {
	if fn, ok := P.FnOK("(*x/evm/statedb.StateDB).commit"); ok {
		return fn, true
	}
	return P.FnOK("(*x/evm/statedb.StateDB).Commit")
}

// isFlushCall: a call that writes the StateDB's dirty state to the keeper (Commit, or the mid-transaction Flush).
func isFlushCall(ci CallInfo) bool {
	return (ci.Name == "Commit" || ci.Name == "Flush") && ci.Recv == "StateDB"
}

// commitInstID: obligations about the write-back loop are keyed by the public method it implements, wherever the
// loop's body lives (Commit itself, or the commit(bool) that Commit and Flush share).
const commitInstID = "(*x/evm/statedb.StateDB).Commit"
