package main

import (
	"encoding/json"
	"flag"
	"fmt"
	"os"
	"runtime/debug"
	"sort"
	"strings"
)

type propDef struct {
	ID          string
	Run         func(r *Run)
	Explanation string
	Assumptions []string
	Declined    []string
	Thorough    func(r *Run) // extra rules evaluated only in the thorough tier (whole-program analyses)
}

var props = map[string]*propDef{}

func register(p *propDef) { props[p.ID] = p }

func main() {
	var (
		prop     = flag.String("property", "", "property id (C01..C20) or 'all'")
		tier     = flag.String("tier", "quick", "quick|thorough")
		repo     = flag.String("repo", "/repo", "repository working tree to analyse")
		verif    = flag.String("verif", "/verif", "verif directory (evidence, known findings)")
		selftest = flag.Bool("selftest", false, "run the mutant catalogue (all or -property)")
		list     = flag.Bool("list", false, "list obligations")
		mutant   = flag.String("mutant", "", "selftest: only this mutant id")
		explain  = flag.String("explain", "", "replay: re-evaluate the obligation recorded in this violation file on the current tree")
	)
	flag.Parse()
	explainKey := ""
	if *explain != "" {
		b, err := os.ReadFile(*explain)
		var o Obligation
		if err == nil {
			err = json.Unmarshal(b, &o)
		}
		if err != nil || !strings.Contains(o.Key, ".") {
			fmt.Fprintln(os.Stderr, "cannot read violation file:", *explain, err)
			os.Exit(2)
		}
		explainKey = o.Key
		*prop = o.Key[:strings.Index(o.Key, ".")]
	}
	if t := os.Getenv("VERIF_TIER"); t != "" && !flagSet("tier") {
		*tier = t
	}
	if *selftest {
		os.Exit(runSelftest(*repo, *verif, *prop, *mutant, true))
	}
	if *prop == "" {
		fmt.Fprintln(os.Stderr, "usage: haqqcheck -property Cxx [-tier quick|thorough]")
		os.Exit(2)
	}
	var ids []string
	if *prop == "all" {
		for id := range props {
			ids = append(ids, id)
		}
		sort.Strings(ids)
	} else {
		for _, id := range strings.Split(*prop, ",") {
			if props[id] == nil {
				fmt.Fprintf(os.Stderr, "unknown property %s\n", id)
				os.Exit(2)
			}
			ids = append(ids, id)
		}
	}
	P, err := LoadRepo(*repo, nil, os.Getenv("HAQQCHECK_TAGS"))
	if err != nil {
		fmt.Println("ANALYSER-FAILURE:", err)
		os.Exit(2)
	}
	fmt.Printf("loaded %d Haqq packages, %d functions with bodies from %s\n", len(P.Pkgs), len(P.Funcs), *repo)
	if len(P.Pkgs) < 100 || len(P.Funcs) < 5000 {
		fmt.Printf("ANALYSER-FAILURE: implausibly small program (%d packages, %d functions)\n", len(P.Pkgs), len(P.Funcs))
		os.Exit(2)
	}
	worst := 0
	for _, id := range ids {
		code := runProperty(P, props[id], *tier, *verif, *list, *repo, explainKey)
		if code > worst {
			worst = code
		}
	}
	os.Exit(worst)
}

func flagSet(name string) bool {
	set := false
	flag.Visit(func(f *flag.Flag) {
		if f.Name == name {
			set = true
		}
	})
	return set
}

func runProperty(P *Prog, pd *propDef, tier, verif string, list bool, repo string, explainKey string) (code int) {
	r := NewRun(pd.ID, tier, P, verif)
	r.Declined = pd.Declined
	func() {
		defer func() {
			if e := recover(); e != nil {
				r.Fail("panic in rule code: %v\n%s", e, debug.Stack())
			}
		}()
		pd.Run(r)
		if pd.Thorough != nil && ((tier == "thorough" && os.Getenv("HAQQCHECK_NESTED") == "") || os.Getenv("HAQQCHECK_WHOLE") != "") {
			pd.Thorough(r)
		}
		if tier == "thorough" {
			thoroughExtras(r, pd, repo, verif)
		}
	}()
	if list {
		for _, o := range r.Obls {
			fmt.Printf("%-12s %s  %s  %s\n", o.Status, o.Key, o.Where, o.Detail)
		}
	}
	if explainKey != "" {
		// replay of one recorded obligation: evidence of the regular run is left untouched
		o, ok := r.oblByKey[explainKey]
		switch {
		case !ok:
			fmt.Printf("replay %s: the construct no longer exists on this tree (no such obligation)\n", explainKey)
			return 0
		case o.Status == "violated":
			fmt.Printf("replay %s: still violated\n  at %s\n  %s\n", o.Key, o.Where, o.Detail)
			for _, w := range o.Witness {
				fmt.Println("    " + w)
			}
			return 1
		default:
			fmt.Printf("replay %s: %s on this tree (%s)\n", o.Key, o.Status, o.Detail)
			return 0
		}
	}
	return r.Finish("other", pd.Explanation, pd.Assumptions)
}
