package main

import (
	"fmt"
	"go/token"
	"strings"

	"golang.org/x/tools/go/ssa"
)

func init() {
	register(&propDef{
		ID:  "C17",
		Run: runC17,
		Explanation: "Static analysis of the base-fee bookkeeping: (R1) the stored base fee is written only by BeginBlock (through SetBaseFee) and by authority-guarded/genesis parameter writes, the block gas figure only by EndBlock and genesis, the per-block transient gas wanted only through AddTransientGasWanted from the GasWanted ante decorator, and CalculateBaseFee writes nothing; " +
			"(R2) BeginBlock stores exactly the value CalculateBaseFee returned; EndBlock stores max(gasWanted × minGasMultiplier, gasUsed) with nothing applied after the max; CalculateBaseFee's result depends on the previous base fee, the previous block's gas figure, the block gas limit, elasticity, change denominator and minimum gas price; " +
			"(R3) shape of the three branches: unchanged copy when equal, parent + max(·, 1) when above target, max(parent − ·, minimum gas price) when below. The EIP-1559 arithmetic itself (exact deltas, bounds, monotonicity) is NOT decided by this technique.",
		Assumptions: []string{"big.Int / sdk.Dec arithmetic"},
		Declined:    []string{"the EIP-1559 function values: base × (g−T)/T/denominator, monotonicity in g, exact bounds"},
	})
}

func runC17(r *Run) {
	defer importProcessLocal(r, "RM", "x/feemarket")
	P := r.P
	const fk = "x/feemarket/keeper"
	r.Rule("R1", "OWN: SetBaseFee ← BeginBlock; SetBlockGasWanted ← EndBlock, InitGenesis; AddTransientGasWanted ← GasWantedDecorator (through the FeeMarketKeeper interface); SetTransientBlockGasWanted ← AddTransientGasWanted; feemarket SetParams ← SetBaseFee, InitGenesis, UpdateParams (authority-guarded), migrations, the zero-height export (R12); CalculateBaseFee calls no store writer")
	r.Rule("R2", "FLOW: BeginBlock passes CalculateBaseFee's result unchanged to SetBaseFee; EndBlock's stored figure is MaxDec(NewDec(transient gas wanted) × MinGasMultiplier, NewDec(block gas consumed)) through conversions only; CalculateBaseFee's non-nil results depend on BaseFee, GetBlockGasWanted, MaxGas, ElasticityMultiplier, BaseFeeChangeDenominator (and MinGasPrice on the decreasing branch)")
	r.Rule("R3", "SHAPE: equal → copy of the parent base fee; above target → Add(parent, BigMax(delta, 1)); below target → BigMax(Sub(parent, delta), MinGasPrice)")

	allowed := map[string]map[string]string{
		"SetBaseFee":                 {"(*" + fk + ".Keeper).BeginBlock": "per-block update"},
		"SetBlockGasWanted":          {"(*" + fk + ".Keeper).EndBlock": "per-block gas figure", "x/feemarket.InitGenesis": "genesis"},
		"SetTransientBlockGasWanted": {"(" + fk + ".Keeper).AddTransientGasWanted": "accumulator"},
		"AddTransientGasWanted":      {"(app/ante/evm.GasWantedDecorator).AnteHandle": "per-tx gas wanted"},
		"SetParams":                  {"(" + fk + ".Keeper).SetBaseFee": "base fee lives in params", "x/feemarket.InitGenesis": "genesis", "(*" + fk + ".Keeper).UpdateParams": "authority-guarded", "(*app.Haqq).prepForZeroHeightGenesis": "zero-height export rebases EnableHeight (R12); export tooling, outside block processing"},
	}
	n := 0
	for _, fn := range P.Funcs {
		if isTestSupport(P, fn) || fn.Synthetic != "" {
			continue
		}
		owner := fnID(outermost(fn))
		eachCall(fn, func(ci CallInfo) {
			al, ok := allowed[ci.Name]
			if !ok {
				return
			}
			isFM := (ci.Static != nil && pathHasSuffix(ci.PkgPath, fk)) || (ci.Invoke && ci.Recv == "FeeMarketKeeper")
			if !isFM {
				return
			}
			n++
			_, okc := al[owner]
			if !okc && (strings.Contains(owner, "/migrations/") || strings.HasPrefix(owner, "app/upgrades/")) {
				okc = true
			}
			// the per-block reset: BeginBlock may write the transient counter, but only the constant zero
			if !okc && ci.Name == "SetTransientBlockGasWanted" && owner == "(*"+fk+".Keeper).BeginBlock" {
				a := ci.Instr.Common().Args
				if z, isZ := constInt(a[len(a)-1]); isZ && z == 0 {
					okc = true
				}
			}
			r.Check(okc, "R1", owner+"#"+ci.Name, P.Pos(instrPos(ci.Instr)), "confirmed writer", "feemarket "+ci.Name+" is called from "+owner+", which is not one of its confirmed callers: the base fee / block gas figure would have a second writer")
		})
	}
	r.Floor("R1", "feemarket writer call sites", n, 7)
	if up, ok := P.FnOK("(*" + fk + ".Keeper).UpdateParams"); ok {
		isSet := isCallMatching(func(ci CallInfo) bool { return ci.Name == "SetParams" })
		requireGuard(r, "R1", fnID(up)+"#authority", up, func(cond ssa.Value) (bool, bool) {
			b, ok := cond.(*ssa.BinOp)
			if !ok || (b.Op != token.NEQ && b.Op != token.EQL) {
				return false, false
			}
			l, rr := backSlice(b.X), backSlice(b.Y)
			isAuth := func(s *Slice) bool { return s.HasField("Keeper", "authority") }
			isReq := func(s *Slice) bool { return s.HasField("MsgUpdateParams", "Authority") }
			if (isAuth(l) && isReq(rr)) || (isAuth(rr) && isReq(l)) {
				return b.Op == token.EQL, true
			}
			return false, false
		}, nil, isSet, "params written only for the module authority", "feemarket params (including the base fee) can be rewritten by a signer that is not the module authority")
	}
	cb, okcb := P.FnOK("(" + fk + ".Keeper).CalculateBaseFee")
	if !okcb {
		r.Bad("R1", "anchor/CalculateBaseFee", "", "not found")
		return
	}
	pure := true
	eachCall(cb, func(ci CallInfo) {
		if strings.HasPrefix(ci.Name, "Set") && (ci.Static != nil && pathHasSuffix(ci.PkgPath, fk)) {
			pure = false
		}
		if ci.Invoke && (ci.Name == "Set" || ci.Name == "Delete") {
			pure = false
		}
	})
	r.Check(pure, "R1", fnID(cb)+"#writes-nothing", P.Pos(fnPos(cb)), "no store writer called", "CalculateBaseFee writes state")

	// ---------- R2 ----------
	if bb, ok := P.FnOK("(*" + fk + ".Keeper).BeginBlock"); ok {
		var calc ssa.Value
		eachCall(bb, func(ci CallInfo) {
			if ci.Name == "CalculateBaseFee" {
				calc = ci.Instr.Value()
			}
		})
		okSame := false
		eachCall(bb, func(ci CallInfo) {
			if ci.Name == "SetBaseFee" && calc != nil && resolveLocal(stripValue(argN(ci.Instr, 1))) == calc {
				okSame = true
			}
		})
		r.Check(okSame, "R2", fnID(bb)+"#stores-computed", P.Pos(fnPos(bb)), "SetBaseFee(CalculateBaseFee(ctx))", "BeginBlock does not store exactly the value CalculateBaseFee returned")
		isSet := isCallMatching(func(ci CallInfo) bool { return ci.Name == "SetBaseFee" })
		nilEdge, _ := guardPassEdges(bb, func(cond ssa.Value) (bool, bool) {
			b, ok := cond.(*ssa.BinOp)
			if !ok || (b.Op != token.EQL && b.Op != token.NEQ) || !isNilConst(b.Y) || resolveLocal(b.X) != calc {
				return false, false
			}
			return b.Op == token.EQL, true
		})
		w := PathQuery{Fn: bb, Block: isSet, Target: func(in ssa.Instruction) bool { _, ok := in.(*ssa.Return); return ok && in.Block() != bb.Recover }, DelEdge: edgeSet(nilEdge)}.Search()
		r.Check(w == nil, "R2", fnID(bb)+"#always-stores", P.Pos(fnPos(bb)), "a non-nil base fee is always stored", "BeginBlock can return without storing a computed (non-nil) base fee", P.witness(w)...)
	} else {
		r.Bad("R2", "anchor/BeginBlock", "", "feemarket BeginBlock not found")
	}
	if eb, ok := P.FnOK("(*" + fk + ".Keeper).EndBlock"); ok {
		okChain, n := false, 0
		eachCall(eb, func(ci CallInfo) {
			if ci.Name != "SetBlockGasWanted" {
				return
			}
			n++
			v := resolveLocal(argN(ci.Instr, 1))
			for d := 0; d < 6; d++ {
				c, isC := v.(*ssa.Call)
				if !isC {
					break
				}
				nm := callInfo(c).Name
				if nm == "MaxDec" || nm == "LegacyMaxDec" {
					a := c.Call.Args
					if len(a) == 2 {
						s0, s1 := backSlice(a[0]), backSlice(a[1])
						// each operand is one quantity: the declared figure does not depend on the block gas meter,
						// the consumed figure depends on nothing but the block gas meter
						isWanted := func(s *Slice) bool {
							return s.HasCall(func(g CallInfo) bool { return g.Name == "GetTransientGasWanted" }) && s.HasField("Params", "MinGasMultiplier") &&
								!s.HasCall(func(g CallInfo) bool { return g.Name == "GasConsumedToLimit" || g.Name == "GasConsumed" })
						}
						isUsed := func(s *Slice) bool {
							return s.HasCall(func(g CallInfo) bool { return g.Name == "GasConsumedToLimit" }) && !s.HasField("Params", "MinGasMultiplier") &&
								!s.HasCall(func(g CallInfo) bool { return g.Name == "GetTransientGasWanted" })
						}
						okChain = (isWanted(s0) && isUsed(s1)) || (isWanted(s1) && isUsed(s0))
					}
					break
				}
				args := callArgs(c)
				if len(args) != 1 {
					break
				}
				v = args[0]
			}
		})
		// every block stores a fresh figure: no return without SetBlockGasWanted except the tabled bail-outs
		nilMeter, _ := guardPassEdges(eb, func(cond ssa.Value) (bool, bool) {
			b, ok := cond.(*ssa.BinOp)
			if !ok || (b.Op != token.EQL && b.Op != token.NEQ) || !isNilConst(b.Y) {
				return false, false
			}
			_, okc := callNamed(b.X, "BlockGasMeter")
			return b.Op == token.EQL, okc
		})
		_, overflow := guardPassEdges(eb, func(cond ssa.Value) (bool, bool) {
			_, ok := callNamed(cond, "IsInt64")
			return true, ok
		})
		isSetBG := isCallMatching(func(ci CallInfo) bool { return ci.Name == "SetBlockGasWanted" })
		wAll := PathQuery{Fn: eb, Block: isSetBG, Target: func(in ssa.Instruction) bool { _, ok := in.(*ssa.Return); return ok && in.Block() != eb.Recover }, DelEdge: edgeSet(append(nilMeter, overflow...))}.Search()
		r.Check(wAll == nil, "R2", fnID(eb)+"#always-stores", P.Pos(fnPos(eb)), "every block stores its gas figure (bail-outs: nil gas meter, int64 overflow)", "EndBlock can return without storing this block's gas figure: the next base fee would be computed from an older block's figure (e.g. the last non-empty block)", P.witness(wAll)...)
		r.Check(okChain && n == 1, "R2", fnID(eb)+"#gas-figure", P.Pos(fnPos(eb)), "stored figure = max(gasWanted × minGasMultiplier, gasUsed), nothing applied after the max", "the block gas figure is not directly max(transient gas wanted × MinGasMultiplier, block gas consumed): declared-but-unpaid gas could push the base fee, or used gas could be ignored")
	} else {
		r.Bad("R2", "anchor/EndBlock", "", "feemarket EndBlock not found")
	}
	// CalculateBaseFee result deps and shape
	type retInfo struct {
		ret *ssa.Return
		s   *Slice
		v   ssa.Value
	}
	var rets []retInfo
	eachInstr(cb, func(in ssa.Instruction) {
		if ret, ok := in.(*ssa.Return); ok {
			v := retOperands(ret)[0]
			if isNilConst(v) {
				return
			}
			rets = append(rets, retInfo{ret, backSlice(v), v})
		}
	})
	r.Floor("R2", "non-nil returns of CalculateBaseFee", len(rets), 4)
	nAdj := 0
	for i, ri := range rets {
		c, isC := ri.v.(*ssa.Call)
		if !isC {
			continue
		}
		nm := callInfo(c).Name
		full := ri.s.HasField("Params", "BaseFee") && ri.s.HasCall(func(g CallInfo) bool { return g.Name == "GetBlockGasWanted" }) && ri.s.HasField("BlockParams", "MaxGas") &&
			ri.s.HasField("Params", "ElasticityMultiplier") && ri.s.HasField("Params", "BaseFeeChangeDenominator")
		switch nm {
		case "Add":
			nAdj++
			a := callArgs(c)
			okShape := len(a) == 3 && func() bool {
				d, ok := a[2].(*ssa.Call)
				if !ok || callInfo(d).Name != "BigMax" {
					return false
				}
				one := false
				for _, x := range d.Call.Args {
					if backSlice(x).Any(func(v ssa.Value) bool { g, ok := v.(*ssa.Global); return ok && g.Name() == "Big1" }) {
						one = true
					}
				}
				return one && backSlice(a[1]).HasField("Params", "BaseFee")
			}()
			r.Check(okShape && full, "R3", fmt.Sprintf("%s#increase-branch-%d", fnID(cb), i+1), P.Pos(instrPos(ri.ret)), "parent + max(delta, 1), depends on all inputs", "the increasing branch is no longer parent base fee + max(delta, 1) over all EIP-1559 inputs")
		case "BigMax":
			nAdj++
			a := c.Call.Args
			okShape := len(a) == 2 && func() bool {
				isSub := func(v ssa.Value) bool { d, ok := v.(*ssa.Call); return ok && callInfo(d).Name == "Sub" && backSlice(v).HasField("Params", "BaseFee") }
				isMin := func(v ssa.Value) bool { return backSlice(v).HasField("Params", "MinGasPrice") && !backSlice(v).HasField("Params", "BaseFee") }
				return (isSub(a[0]) && isMin(a[1])) || (isSub(a[1]) && isMin(a[0]))
			}()
			r.Check(okShape && full, "R3", fmt.Sprintf("%s#decrease-branch-%d", fnID(cb), i+1), P.Pos(instrPos(ri.ret)), "max(parent − delta, MinGasPrice), depends on all inputs", "the decreasing branch is no longer max(parent base fee − delta, minimum gas price): the base fee could fall below the configured minimum")
		case "Set":
			okCopy := ri.s.HasField("Params", "BaseFee") && !ri.s.HasField("Params", "BaseFeeChangeDenominator")
			r.Check(okCopy, "R3", fmt.Sprintf("%s#equal-branch-%d", fnID(cb), i+1), P.Pos(instrPos(ri.ret)), "unchanged copy of the parent base fee", "the g = T branch does not return an unchanged copy of the parent base fee")
		}
	}
	// the unchanged copy is returned only where used == target
	{
		var eqEdges []Edge
		for _, b := range cb.Blocks {
			ifi, ok := lastIf(b)
			if !ok {
				continue
			}
			bo, ok := ifi.Cond.(*ssa.BinOp)
			if !ok || (bo.Op != token.EQL && bo.Op != token.NEQ) {
				continue
			}
			l, rr := backSlice(bo.X), backSlice(bo.Y)
			used := func(s *Slice) bool { return s.HasCall(func(g CallInfo) bool { return g.Name == "GetBlockGasWanted" }) }
			tgt := func(s *Slice) bool { return s.HasField("Params", "ElasticityMultiplier") }
			isZero := func(v ssa.Value) bool { n, ok := constInt(v); return ok && n == 0 }
			// … or where there is no target to measure against (target == 0: a block gas limit below the elasticity multiplier)
			noTarget := (tgt(l) && !used(l) && isZero(bo.Y)) || (tgt(rr) && !used(rr) && isZero(bo.X))
			if (used(l) && tgt(rr)) || (used(rr) && tgt(l)) || noTarget {
				if bo.Op == token.EQL {
					eqEdges = append(eqEdges, Edge{b, 0})
				} else {
					eqEdges = append(eqEdges, Edge{b, 1})
				}
			}
		}
		for i, ri := range rets {
			c, isC := ri.v.(*ssa.Call)
			if !isC || callInfo(c).Name != "Set" {
				continue
			}
			isThis := func(in ssa.Instruction) bool { return in == ssa.Instruction(ri.ret) }
			w := PathQuery{Fn: cb, Target: isThis, DelEdge: edgeSet(eqEdges)}.Search()
			r.Check(len(eqEdges) > 0 && w == nil, "R3", fmt.Sprintf("%s#copy-only-at-target-%d", fnID(cb), i+1), P.Pos(instrPos(ri.ret)), "the unchanged copy of the parent base fee is returned only where used == target",
				"the parent base fee is returned unchanged on a path on which the gas figure differs from the target (an early return around the adjustment): there the floor max(…, MinGasPrice) / the minimum step is skipped, so the base fee can stay below the configured minimum gas price", P.witness(w)...)
		}
	}
	r.Check(nAdj == 2, "R3", fnID(cb)+"#two-adjusting-branches", P.Pos(fnPos(cb)), "one increasing and one decreasing branch", fmt.Sprintf("expected exactly one Add(...) and one BigMax(...) result, found %d adjusting results", nAdj))
	// the three-way comparison on gas used vs target
	nCmp := 0
	for _, b := range cb.Blocks {
		if ifi, ok := lastIf(b); ok {
			if bo, ok := ifi.Cond.(*ssa.BinOp); ok && (bo.Op == token.EQL || bo.Op == token.GTR || bo.Op == token.LSS) {
				l, rr := backSlice(bo.X), backSlice(bo.Y)
				if l.HasCall(func(g CallInfo) bool { return g.Name == "GetBlockGasWanted" }) && rr.HasField("Params", "ElasticityMultiplier") {
					nCmp++
				}
			}
		}
	}
	r.Check(nCmp >= 2, "R3", fnID(cb)+"#compares-with-target", P.Pos(fnPos(cb)), "gas figure compared with target = gas limit / elasticity", "the comparisons of the previous gas figure with the target (gas limit / elasticity multiplier) are gone")
	// which branch belongs to which ordering: the increasing result is reachable only where used > target is
	// possible, the decreasing one only where used < target is possible; and each delta subtracts the smaller
	// figure from the larger (uint64 subtraction wraps otherwise)
	isUsed := func(v ssa.Value) bool {
		s := backSlice(v)
		return s.HasCall(func(g CallInfo) bool { return g.Name == "GetBlockGasWanted" }) && !s.HasField("Params", "ElasticityMultiplier")
	}
	isTarget := func(v ssa.Value) bool {
		s := backSlice(v)
		return s.HasField("Params", "ElasticityMultiplier") && !s.HasCall(func(g CallInfo) bool { return g.Name == "GetBlockGasWanted" })
	}
	var greaterPossible, lessPossible []Edge
	for _, b := range cb.Blocks {
		ifi, ok := lastIf(b)
		if !ok {
			continue
		}
		bo, ok := ifi.Cond.(*ssa.BinOp)
		if !ok {
			continue
		}
		op := bo.Op
		switch {
		case isUsed(bo.X) && isTarget(bo.Y):
		case isUsed(bo.Y) && isTarget(bo.X):
			op = flipCmp(op)
		default:
			continue
		}
		// normalised: used OP target; Succ 0 = condition true
		switch op {
		case token.GTR:
			greaterPossible = append(greaterPossible, Edge{b, 0})
			lessPossible = append(lessPossible, Edge{b, 1})
		case token.GEQ:
			greaterPossible = append(greaterPossible, Edge{b, 0})
			lessPossible = append(lessPossible, Edge{b, 1})
		case token.LSS:
			lessPossible = append(lessPossible, Edge{b, 0})
			greaterPossible = append(greaterPossible, Edge{b, 1})
		case token.LEQ:
			lessPossible = append(lessPossible, Edge{b, 0})
			greaterPossible = append(greaterPossible, Edge{b, 1})
		}
	}
	subOrder := func(s *Slice) (usedMinusTarget, targetMinusUsed bool) {
		s.Any(func(v ssa.Value) bool {
			if bo, ok := v.(*ssa.BinOp); ok && bo.Op == token.SUB {
				if isUsed(bo.X) && isTarget(bo.Y) {
					usedMinusTarget = true
				}
				if isTarget(bo.X) && isUsed(bo.Y) {
					targetMinusUsed = true
				}
			}
			return false
		})
		return
	}
	for i, ri := range rets {
		c, isC := ri.v.(*ssa.Call)
		if !isC {
			continue
		}
		isThis := func(in ssa.Instruction) bool { return in == ssa.Instruction(ri.ret) }
		switch callInfo(c).Name {
		case "Add":
			w := PathQuery{Fn: cb, Target: isThis, DelEdge: edgeSet(greaterPossible)}.Search()
			um, tm := subOrder(ri.s)
			r.Check(w == nil && len(greaterPossible) > 0 && um && !tm, "R3", fmt.Sprintf("%s#increase-only-above-target-%d", fnID(cb), i+1), P.Pos(instrPos(ri.ret)), "the increasing result is returned only where used > target is possible; delta = used − target",
				fmt.Sprintf("the increasing result (parent + delta) is reachable where the gas figure is not above the target, or its delta is not used − target (used−target: %v, target−used: %v): the base fee would rise in under-full blocks and the unsigned subtraction wraps", um, tm), P.witness(w)...)
		case "BigMax":
			w := PathQuery{Fn: cb, Target: isThis, DelEdge: edgeSet(lessPossible)}.Search()
			um, tm := subOrder(ri.s)
			r.Check(w == nil && len(lessPossible) > 0 && tm && !um, "R3", fmt.Sprintf("%s#decrease-only-below-target-%d", fnID(cb), i+1), P.Pos(instrPos(ri.ret)), "the decreasing result is returned only where used < target is possible; delta = target − used",
				fmt.Sprintf("the decreasing result is reachable where the gas figure is not below the target, or its delta is not target − used (target−used: %v, used−target: %v)", tm, um), P.witness(w)...)
		}
	}

	// ---------- R6: one activation boundary ----------
	r.Rule("R6", "TABLE.activation-boundary (sibling agreement): the two predicates that decide whether the fee market is active at a height — (Keeper).GetBaseFeeEnabled, which gates the recording of declared gas in the ante handler, and (Params).IsBaseFeeEnabled, which gates CalculateBaseFee — compare the height with EnableHeight in the same class (height >= EnableHeight ⇔ active): the block at EnableHeight is treated alike by both")
	{
		classOf := func(fn *ssa.Function) string {
			cls := ""
			eachInstr(fn, func(in ssa.Instruction) {
				bo, ok := in.(*ssa.BinOp)
				if !ok {
					return
				}
				x, y, op := bo.X, bo.Y, bo.Op
				isEH := func(v ssa.Value) bool { return backSlice(v).HasField("Params", "EnableHeight") }
				if isEH(x) && !isEH(y) {
					x, y, op = y, x, flipCmp(op)
				}
				if !isEH(y) || isEH(x) {
					return
				}
				switch op {
				case token.GEQ, token.LSS:
					cls += "[>=]"
				case token.GTR, token.LEQ:
					cls += "[>]"
				}
			})
			return cls
		}
		gk, ok1 := P.FnOK("(" + fk + ".Keeper).GetBaseFeeEnabled")
		gp, ok2 := P.FnOK("(*x/feemarket/types.Params).IsBaseFeeEnabled")
		if !ok1 || !ok2 {
			r.Bad("R6", "anchor/base-fee-enabled predicates", "", "GetBaseFeeEnabled / IsBaseFeeEnabled not found")
		} else {
			a, b := classOf(gk), classOf(gp)
			r.Check(a == "[>=]" && b == "[>=]", "R6", "x/feemarket#activation-boundary", P.Pos(fnPos(gk)), "both predicates: active ⇔ height >= EnableHeight",
				fmt.Sprintf("the two activation predicates disagree or changed class (GetBaseFeeEnabled: %q, IsBaseFeeEnabled: %q; expected height >= EnableHeight in both): in the block at EnableHeight the base fee is computed but the declared gas is not recorded (or vice versa), so the next base fee is computed from gas used alone", a, b))
		}
	}

	// ---------- R5: arbitrary precision ----------
	r.Rule("R5", "SHAPE.arbitrary-precision: CalculateBaseFee and the feemarket-keeper functions it calls contain no machine-word integer multiplication, shift or addition — parent base fee × gas delta exceeds 64 bits for fees the chain can reach, and a wrapped product lowers the fee in an over-full block; the only machine-word arithmetic is the guarded subtraction used − target / target − used (R3)")
	{
		mw := machineWordOps(P, cb, 3, map[token.Token]bool{token.MUL: true, token.SHL: true, token.ADD: true}, map[*ssa.Function]bool{})
		r.Check(len(mw) == 0, "R5", fnID(cb)+"#arbitrary-precision", P.Pos(fnPos(cb)), "no machine-word multiplication/shift/addition on the way to the next base fee",
			fmt.Sprintf("machine-word arithmetic on the way to the next base fee (%s): whether it can wrap depends on run-time magnitudes (base fee × gas delta needs up to 128 bits); the EIP-1559 formula is defined over unbounded integers", strings.Join(mw, "; ")))
	}

	// ---------- R7: gas quantities are unsigned 64-bit ----------
	r.Rule("R7", "SHAPE.gas-is-unsigned: gas used and the gas target are uint64 quantities (an unlimited block is MaxUint64 gas, the target MaxUint64/elasticity); CalculateBaseFee and the feemarket-keeper functions it calls never narrow a big integer through the signed Int64()/IsInt64() — a signed guard declares every target above MaxInt64 invalid, so with unlimited block gas and elasticity 1 the base fee freezes instead of falling to the floor")
	{
		var signed []string
		seenF := map[*ssa.Function]bool{}
		var walk func(fn *ssa.Function, d int)
		walk = func(fn *ssa.Function, d int) {
			if fn == nil || fn.Blocks == nil || seenF[fn] {
				return
			}
			seenF[fn] = true
			for _, f := range withAnon(fn) {
				eachCall(f, func(ci CallInfo) {
					if (ci.Name == "Int64" || ci.Name == "IsInt64") && ci.Recv == "Int" {
						signed = append(signed, ci.String()+" at "+P.Pos(instrPos(ci.Instr)))
					}
					if d > 0 && ci.Static != nil && fnPkgPath(ci.Static) == fnPkgPath(cb) {
						walk(ci.Static, d-1)
					}
				})
			}
		}
		walk(cb, 3)
		nU := len(findCalls(cb, func(ci CallInfo) bool { return (ci.Name == "Uint64" || ci.Name == "IsUint64") && ci.Recv == "Int" }))
		r.Check(len(signed) == 0 && nU >= 2, "R7", fnID(cb)+"#gas-is-unsigned", P.Pos(fnPos(cb)), fmt.Sprintf("%d unsigned narrowings (IsUint64 guard + Uint64), no signed one", nU),
			"the gas target is narrowed through a signed 64-bit integer ("+strings.Join(signed, "; ")+"): targets between MaxInt64 and MaxUint64 — unlimited block gas with a small elasticity multiplier — are treated as invalid and the base fee stops moving")
	}

	// ---------- R4: the inputs of the next base fee are recorded on every block and survive a genesis restart ----------
	r.Rule("R4", "PATH.gas-wanted-recorded: GasWantedDecorator reaches next only through an error-checked AddTransientGasWanted(ctx, feeTx.GetGas()) except over the tabled bypass edges (not a FeeTx / before London, GetBaseFeeEnabled() false) — the declared gas of every transaction enters the block figure whenever the fee market is enabled, whatever the current base fee; feemarket InitGenesis restores the previous block's figure (SetBlockGasWanted(GenesisState.BlockGas)) so the first block after an export/import restart computes the same base fee as the uninterrupted chain")
	if gw, ok := P.FnOK("(app/ante/evm.GasWantedDecorator).AnteHandle"); ok {
		next := nextCallPred(gw)
		isAdd := isCallMatching(func(ci CallInfo) bool {
			if ci.Name != "AddTransientGasWanted" || !errHandled(ci.Instr) {
				return false
			}
			return backSlice(argN(ci.Instr, 1)).HasCall(func(g CallInfo) bool { return g.Name == "GetGas" })
		})
		var bypass []Edge
		_, notEnabled := guardPassEdges(gw, func(cond ssa.Value) (bool, bool) {
			c, ok := callNamed(cond, "GetBaseFeeEnabled")
			return true, ok && c != nil
		})
		bypass = append(bypass, notEnabled...)
		_, notLondon := guardPassEdges(gw, func(cond ssa.Value) (bool, bool) {
			c, ok := callNamed(cond, "IsLondon")
			return true, ok && c != nil
		})
		bypass = append(bypass, notLondon...)
		// comma-ok assertion to sdk.FeeTx failing
		for _, b := range gw.Blocks {
			if ifi, ok := lastIf(b); ok {
				if e, ok := ifi.Cond.(*ssa.Extract); ok && e.Index == 1 {
					if ta, ok := e.Tuple.(*ssa.TypeAssert); ok && ta.CommaOk && namedName(ta.AssertedType) == "FeeTx" {
						bypass = append(bypass, Edge{b, 1})
					}
				}
			}
		}
		w := PathQuery{Fn: gw, Block: isAdd, Target: next, DelEdge: edgeSet(bypass)}.Search()
		r.Check(w == nil && len(notEnabled) > 0, "R4", fnID(gw)+"#records-declared-gas", P.Pos(fnPos(gw)), "next only after AddTransientGasWanted(feeTx.GetGas()) (bypass: not FeeTx, pre-London, base fee disabled)",
			"a transaction can pass the gas-wanted decorator without its declared gas being added to the block's figure although the fee market is enabled (the condition is no longer GetBaseFeeEnabled alone): the stored figure misses declared gas, e.g. in every block whose base fee is 0, and the base fee cannot rise", P.witness(w)...)
	} else {
		r.Bad("R4", "anchor/GasWantedDecorator.AnteHandle", "", "not found")
	}
	if ig, ok := P.FnOK("x/feemarket.InitGenesis"); ok {
		isSet := isCallMatching(func(ci CallInfo) bool {
			return ci.Name == "SetBlockGasWanted" && backSlice(argN(ci.Instr, 1)).HasField("GenesisState", "BlockGas")
		})
		w := PathQuery{Fn: ig, Block: isSet, Target: func(in ssa.Instruction) bool { _, ok := in.(*ssa.Return); return ok }}.Search()
		r.Check(w == nil, "R4", fnID(ig)+"#restores-block-gas", P.Pos(fnPos(ig)), "SetBlockGasWanted(GenesisState.BlockGas) on every path", "feemarket InitGenesis does not restore the previous block's gas figure: after an export/import restart the first block computes its base fee from 0 instead of the parent block's figure", P.witness(w)...)
	} else {
		r.Bad("R4", "anchor/feemarket.InitGenesis", "", "not found")
	}
	// … and the export hands that figure on: the persisted one (the transient counter is empty outside a block)
	if eg, ok := P.FnOK("x/feemarket.ExportGenesis"); ok {
		sl := backSlice()
		eachInstr(eg, func(in ssa.Instruction) {
			if ret, ok := in.(*ssa.Return); ok {
				sl = backSlice(ret.Results...)
			}
		})
		persisted := sl.HasCall(func(ci CallInfo) bool { return ci.Name == "GetBlockGasWanted" })
		transient := sl.HasCall(func(ci CallInfo) bool { return ci.Name == "GetTransientGasWanted" })
		r.Check(persisted && !transient, "R4", fnID(eg)+"#exports-persisted-block-gas", P.Pos(fnPos(eg)), "exported BlockGas = GetBlockGasWanted()",
			"feemarket ExportGenesis does not export the persisted gas figure of the last block (it reads the transient counter, which is empty outside a block, or nothing): the first block after an export/import restart computes its base fee from 0")
	} else {
		r.Bad("R4", "anchor/feemarket.ExportGenesis", "", "not found")
	}
	// R10: the floor holds on every exit
	r.Rule("R10", "PATH.floor-on-every-exit: 'never below the configured minimum gas price … and therefore monotone in g' — every return of CalculateBaseFee that yields a computed fee (after the enabled / first-block exits) passes math.BigMax(…, minGasPrice). With the floor applied in the decrease branch only, a parent base fee below the minimum (governance raised MinGasPrice, or the default genesis: base fee 1e9 against a minimum of 20e9) stays below it while blocks are at or above target, and an emptier block yields a higher fee than a fuller one")
	{
		isFloor := func(in ssa.Instruction) bool {
			c, ok := in.(*ssa.Call)
			if !ok || callInfo(c).Name != "BigMax" {
				return false
			}
			return backSlice(c.Call.Args...).HasField("Params", "MinGasPrice")
		}
		// start after the parent base fee has been read (the exits before it are 'disabled' / 'first block')
		var start ssa.Instruction
		eachCall(cb, func(ci CallInfo) {
			if ci.Name == "GetBlockGasWanted" && start == nil {
				start = ci.Instr
			}
		})
		var w []ssa.Instruction
		if start != nil {
			w = PathQuery{Fn: cb, Start: start, Block: isFloor, Target: func(in ssa.Instruction) bool {
				ret, ok := in.(*ssa.Return)
				return ok && len(ret.Results) == 1 && !isNilConst(stripValue(ret.Results[0]))
			}}.Search()
		}
		r.Check(start != nil && w == nil, "R10", fnID(cb)+"#floor-on-every-exit", P.Pos(fnPos(cb)), "every computed result passes BigMax(…, minGasPrice)",
			"CalculateBaseFee returns a computed base fee without applying the minimum-gas-price floor (the 'unchanged' and 'increase' branches): below-minimum fees persist through busy blocks and the result is not monotone in the gas figure", P.witness(w)...)
	}
	// R9: what the formula divides by cannot be zero
	r.Rule("R9", "TABLE.divisors-validated-non-zero: every feemarket parameter that CalculateBaseFee divides by (the second operand of a big.Int Div/Quo derives from Params.<F>: ElasticityMultiplier for the target, BaseFeeChangeDenominator for the step) is compared with zero in Params.Validate — the gate of genesis import and of MsgUpdateParams; a zero that passes validation makes the next BeginBlock panic with a division by zero, on every node: the chain halts")
	{
		divisors := map[string]bool{}
		eachCall(cb, func(ci CallInfo) {
			if !(ci.Name == "Div" || ci.Name == "Quo") || ci.Recv != "Int" || ci.PkgPath != "math/big" {
				return
			}
			a := ci.Instr.Common().Args
			backSlice(a[len(a)-1]).Any(func(v ssa.Value) bool {
				if sn, f, ok := fieldOfAddr(v); ok && sn == "Params" {
					divisors[f] = true
				}
				if sn, f, ok := fieldOfValue(v); ok && sn == "Params" {
					divisors[f] = true
				}
				return false
			})
		})
		pv, ok := P.FnOK("(x/feemarket/types.Params).Validate")
		if !ok || len(divisors) == 0 {
			r.Bad("R9", "anchor/Params.Validate+divisors", "", fmt.Sprintf("Params.Validate not found or no parameter divisor identified in CalculateBaseFee (%d)", len(divisors)))
		} else {
			for _, f := range sortedKeys(divisors) {
				checked := false
				eachInstr(pv, func(in ssa.Instruction) {
					b, ok := in.(*ssa.BinOp)
					if !ok {
						return
					}
					isF := func(v ssa.Value) bool { return backSlice(v).HasField("Params", f) }
					isZero := func(v ssa.Value) bool { n, ok := constInt(v); return ok && n == 0 }
					if (isF(b.X) && isZero(b.Y) || isF(b.Y) && isZero(b.X)) && valueBranches(b, 0) {
						checked = true
					}
				})
				r.Check(checked, "R9", fnID(pv)+"#rejects-zero-"+f, P.Pos(fnPos(pv)), "compared with zero",
					"CalculateBaseFee divides by Params."+f+" but Params.Validate never compares it with zero: a governance parameter change or a genesis file with "+f+" = 0 is accepted and the first BeginBlock afterwards panics (division by zero) on every node")
			}
		}
		r.Floor("R9", "feemarket parameters used as divisors", len(divisors), 2)
		// the gas target is also a divisor, and it derives from a figure the feemarket's validation never sees: the
		// consensus parameter block.max_gas (CometBFT and x/consensus accept 0, which baseapp reads as "unlimited", and any
		// value below the elasticity multiplier gives a target of 0)
		{
			var nz []Edge
			isTarget := func(v ssa.Value) bool {
				sl := backSlice(v)
				return sl.HasField("BlockParams", "MaxGas") && sl.HasField("Params", "ElasticityMultiplier")
			}
			isZero := func(v ssa.Value) bool { n, ok := constInt(v); return ok && n == 0 }
			for _, b := range cb.Blocks {
				ifi, ok := lastIf(b)
				if !ok {
					continue
				}
				bo, ok := ifi.Cond.(*ssa.BinOp)
				if !ok || !((isTarget(bo.X) && isZero(bo.Y)) || (isTarget(bo.Y) && isZero(bo.X))) {
					continue
				}
				switch bo.Op {
				case token.EQL:
					nz = append(nz, Edge{b, 1})
				case token.NEQ, token.GTR:
					nz = append(nz, Edge{b, 0})
				}
			}
			nDiv := 0
			eachCall(cb, func(ci CallInfo) {
				if !(ci.Name == "Div" || ci.Name == "Quo") || ci.Recv != "Int" || ci.PkgPath != "math/big" {
					return
				}
				a := ci.Instr.Common().Args
				if !isTarget(a[len(a)-1]) {
					return
				}
				nDiv++
				call := ci.Instr
				w := PathQuery{Fn: cb, Target: func(x ssa.Instruction) bool { return x == ssa.Instruction(call) }, DelEdge: edgeSet(nz)}.Search()
				r.Check(w == nil && len(nz) > 0, "R9", fmt.Sprintf("%s#target-divisor-non-zero-%d", fnID(cb), nDiv), P.Pos(instrPos(call)), "the division by the gas target is reachable only where the target is not zero",
					"CalculateBaseFee divides by the gas target (block.max_gas / ElasticityMultiplier) on a path on which it can be zero: block.max_gas = 0 (accepted by CometBFT and x/consensus, read as 'unlimited' by baseapp) or any value below the elasticity multiplier makes the BeginBlock after the first block that uses gas panic with a division by zero on every node", P.witness(w)...)
			})
			r.Floor("R9", "divisions by the gas target", nDiv, 2)
		}
	}
	r.Rule("R13", "TABLE.declared-gas-is-recorded-on-every-route: each of the three ante chains (Ethereum, Cosmos, legacy EIP-712) contains GasWantedDecorator — R4 checks what the decorator does, this checks that no route goes without it: the declared gas of transactions on a route that lacks it never enters the block's figure, and a block full of such transactions lowers the next base fee instead of raising it")
	{
		chains := anteChains(r)
		for _, cn := range []string{"newEVMAnteHandler", "newCosmosAnteHandler", "newLegacyCosmosAnteHandlerEip712"} {
			c := chains[cn]
			if c == nil {
				r.Bad("R13", "anchor/"+cn, "", "ante chain not found")
				continue
			}
			r.Check(c.index("GasWantedDecorator") >= 0, "R13", "app/ante."+cn+"#records-declared-gas", P.Pos(fnPos(c.Ctor)), "GasWantedDecorator is in the chain",
				"the ante chain "+cn+" has no GasWantedDecorator: the declared gas of its transactions is not added to the block's gas-wanted figure — a legacy EIP-712 transaction declaring the whole block gas limit leaves the transient counter at 0 and the next base fee falls")
		}
	}
	r.Rule("R12", "FLOW.height-valued-parameters-are-rebased-by-the-zero-height-export: the fee market's EnableHeight is a height of the running chain (below it CalculateBaseFee returns nil and the declared-gas counter is not kept: the base fee is charged but never adjusted); a chain started from a zero-height export counts from 1 again, so the zero-height preparation stores a new EnableHeight and writes the fee market parameters back (SetParams) — otherwise the restarted chain freezes its base fee until it reaches the old height")
	{
		var prep *ssa.Function
		for _, fn := range P.Funcs {
			if fn.Name() == "prepForZeroHeightGenesis" && isHaqqPath(fnPkgPath(fn)) && fn.Parent() == nil && fn.Synthetic == "" {
				prep = fn
			}
		}
		if prep == nil {
			r.Bad("R12", "anchor/prepForZeroHeightGenesis", "", "not found")
		} else {
			stores, writesBack := false, false
			for _, g := range withAnon(prep) {
				eachInstr(g, func(in ssa.Instruction) {
					if st, ok := in.(*ssa.Store); ok {
						if sn, f, ok := fieldOfAddr(st.Addr); ok && sn == "Params" && f == "EnableHeight" {
							stores = true
						}
					}
				})
				eachCall(g, func(ci CallInfo) {
					if ci.Name == "SetParams" && pathHasSuffix(ci.PkgPath, "x/feemarket/keeper") {
						writesBack = true
					}
				})
			}
			r.Check(stores && writesBack, "R12", fnID(prep)+"#enable-height-rebased", P.Pos(fnPos(prep)), "EnableHeight is stored anew and the fee market parameters are written back",
				"the zero-height export leaves the fee market's EnableHeight as it is: EnableHeight = 5, export at height 11 with the fee decaying 12.5 % per empty block — the chain started from the export shows 'base fee enabled false' at heights 2–4 and 512908936, 512908936, 512908936 where 448795319, 392695905, 343608917 are due")
		}
	}
	r.Rule("R11", "PATH.declared-gas-counts-from-zero + SHAPE.floor-not-rounded-down: (a) the transient declared-gas counter is reset by the SDK at Commit — but InitChain does not commit, and baseapp reuses InitChain's deliver state (with the gas the genesis transactions declared) for the first block: BeginBlock therefore sets the counter to the constant zero on every path before anything else reads it; (b) the minimum gas price is a decimal and transactions are admitted against the exact decimal, so the integer floor CalculateBaseFee applies to the base fee is its ceiling (Ceil before the integer conversion) — a floor rounded down lets the base fee settle below the configured minimum")
	if bb, ok := P.FnOK("(*" + fk + ".Keeper).BeginBlock"); ok {
		isReset := func(in ssa.Instruction) bool {
			c, ok := in.(ssa.CallInstruction)
			if !ok || callInfo(c).Name != "SetTransientBlockGasWanted" {
				return false
			}
			a := c.Common().Args
			z, isZ := constInt(a[len(a)-1])
			return isZ && z == 0
		}
		w := PathQuery{Fn: bb, Block: isReset, Target: func(in ssa.Instruction) bool {
			if _, ok := in.(*ssa.Return); ok {
				return true
			}
			c, ok := in.(ssa.CallInstruction)
			return ok && callInfo(c).Name == "CalculateBaseFee"
		}}.Search()
		r.Check(w == nil, "R11", fnID(bb)+"#declared-gas-reset", P.Pos(fnPos(bb)), "SetTransientBlockGasWanted(ctx, 0) before CalculateBaseFee and every return",
			"BeginBlock does not reset the transient declared-gas counter: the gas limits of the genesis transactions (delivered during InitChain, whose state the first block inherits) are booked as the first block's gas figure and move the second block's base fee", P.witness(w)...)
	} else {
		r.Bad("R11", "anchor/feemarket BeginBlock", "", "not found")
	}
	{
		nConv, bad := 0, ""
		eachCall(cb, func(ci CallInfo) {
			switch ci.Name {
			case "TruncateInt", "RoundInt", "TruncateInt64", "RoundInt64", "BigInt":
			default:
				return
			}
			if ci.Recv != "LegacyDec" && ci.Recv != "Dec" {
				return
			}
			recv := ci.Instr.Common().Args[0]
			sl := backSlice(recv)
			if !sl.HasField("Params", "MinGasPrice") {
				return
			}
			nConv++
			if !sl.HasCall(func(g CallInfo) bool { return g.Name == "Ceil" }) {
				bad = ci.Name + " at " + P.Pos(instrPos(ci.Instr))
			}
		})
		r.Check(bad == "" && nConv >= 1, "R11", fnID(cb)+"#floor-is-the-ceiling-of-the-minimum", P.Pos(fnPos(cb)), "MinGasPrice is converted to an integer only after Ceil()",
			"CalculateBaseFee converts the decimal minimum gas price to its integer floor with "+bad+" (rounding down): with a fractional minimum the base fee settles one unit below it, where the ante handler — which compares with the exact decimal — rejects a transaction paying exactly the base fee")
	}
	// R8: the block's declared-gas counter is a plain running sum
	r.Rule("R8", "SHAPE.declared-gas-is-a-plain-sum: AddTransientGasWanted stores GetTransientGasWanted() + gasWanted itself — the declared gas of a block's transactions may legitimately exceed the block gas limit (the limit bounds gas used), so a counter that saturates at the limit caps the figure at the target and the base fee never rises")
	if ag, ok := P.FnOK("(x/feemarket/keeper.Keeper).AddTransientGasWanted"); ok {
		okSum := false
		eachCall(ag, func(ci CallInfo) {
			if ci.Name != "SetTransientBlockGasWanted" {
				return
			}
			a := ci.Instr.Common().Args
			b, isB := stripValue(a[len(a)-1]).(*ssa.BinOp)
			if !isB || b.Op != token.ADD {
				return
			}
			isCur := func(v ssa.Value) bool {
				c, ok := stripValue(v).(*ssa.Call)
				return ok && callInfo(c).Name == "GetTransientGasWanted"
			}
			isParam := func(v ssa.Value) bool { p, ok := stripValue(v).(*ssa.Parameter); return ok && p.Name() == "gasWanted" }
			okSum = isCur(b.X) && isParam(b.Y) || isCur(b.Y) && isParam(b.X)
		})
		r.Check(okSum, "R8", fnID(ag)+"#plain-sum", P.Pos(fnPos(ag)), "stores current + gasWanted",
			"the value stored as the block's declared gas is not the plain sum of the previous value and the transaction's gas (clamped, saturated or otherwise adjusted): the figure max(gasWanted × multiplier, gasUsed) no longer grows with the gas the block's transactions declared")
	} else {
		r.Bad("R8", "anchor/AddTransientGasWanted", "", "not found")
	}
}

// resolveLocal: a load of a local variable that is assigned exactly once (e.g. because a deferred
// closure captures it) is identified with the assigned value.
func resolveLocal(v ssa.Value) ssa.Value {
	u, ok := v.(*ssa.UnOp)
	if !ok || u.Op != token.MUL {
		return v
	}
	al, ok := u.X.(*ssa.Alloc)
	if !ok {
		return v
	}
	var stored ssa.Value
	n := 0
	for _, st := range storesInto(al) {
		if st.Addr == ssa.Value(al) {
			n++
			stored = st.Val
		}
	}
	if n == 1 {
		return stored
	}
	return v
}
