package main

import (
	"fmt"
	"go/ast"
	"go/token"
	"go/types"
	"os"
	"sort"
	"strings"

	"golang.org/x/tools/go/ssa"
)

func init() {
	register(&propDef{
		ID:  "C01",
		Run: runC01,
		Explanation: "Determinism lint over the consensus-reachable part of Haqq (scope S: functions reachable from ABCI/ante/msg-server/precompile/IBC/hook/upgrade roots found by interface implementation) and the construction scope K: " +
			"every map range must be an order-insensitive idiom (collect-then-sort, map-to-map); no wall clock, randomness, environment, CPU count, goroutines, channels, selects or mutex use; no writes to package-level variables; no float arithmetic reaching state; " +
			"module orders are complete; the TPS counter only observes. Determinism of cosmos-sdk, CometBFT and go-ethereum code is trusted.",
		Assumptions: []string{"dependencies (cosmos-sdk, go-ethereum, CometBFT, ibc-go) are deterministic", "sort comparators used after map collection are total orders on the collected keys"},
		Declined:    []string{"determinism of dependencies", "totality of sort comparators"},
	})
}

// ----- scope caching per run -----

var scopesMemo = map[*Prog]*Scopes{}

func scopesOf(r *Run) *Scopes {
	if s, ok := scopesMemo[r.P]; ok {
		return s
	}
	s := BuildScopes(r)
	scopesMemo[r.P] = s
	return s
}

func checkScopeControls(r *Run, sc *Scopes) {
	P := r.P
	mustIn := []string{
		"(*x/evm/statedb.StateDB).Commit",
		"(x/ucdao/keeper.BaseKeeper).Fund",
		"(x/coinomics/keeper.Keeper).MintAndAllocate",
		"(x/erc20/keeper.Keeper).PostTxProcessing",
		"(*x/evm/keeper.Keeper).ApplyTransaction",
		"(precompiles/staking.Precompile).Delegate",
		"app/upgrades/v1.7.5.TurnOffLiquidVesting",
	}
	mustOut := []string{
		"(x/evm/keeper.Keeper).TraceTx",
		"(*rpc/backend.Backend).GetBalance",
	}
	for _, id := range mustIn {
		fn, ok := P.FnOK(id)
		if !ok {
			r.Note("scope control %s does not exist on this tree", id)
			continue
		}
		if !sc.S.Has(fn) {
			r.Fail("REACH positive control failed: %s is not in consensus scope S — roots are incomplete", id)
		}
	}
	for _, id := range mustOut {
		fn, ok := P.FnOK(id)
		if !ok {
			continue
		}
		if sc.S.Has(fn) {
			r.Fail("REACH negative control failed: %s is in consensus scope S via %s", id, strings.Join(sc.S.Chain(fn), " -> "))
		}
	}
}

func runC01(r *Run) {
	P := r.P
	sc := scopesOf(r)
	checkScopeControls(r, sc)
	S := sc.S.HaqqFuncs()
	K := sc.K.HaqqFuncs()
	r.Count("REACH roots", len(sc.Roots))
	r.Count("REACH scope S functions", len(S))
	r.Count("REACH scope K functions", len(K))
	if len(S) < 1500 {
		r.Bad("REACH", "floor/scope-S", "", fmt.Sprintf("consensus scope has only %d functions (reference tree: > 2000)", len(S)))
	}
	inScope := map[*ssa.Function]string{}
	for _, f := range K {
		inScope[f] = "K"
	}
	for _, f := range S {
		inScope[f] = "S"
	}

	r.Rule("R1", "DET.maprange: every range over a map in S∪K is collect-then-sort (key/value only appended to one slice that is sorted before any other use) or map-to-map/order-insensitive accumulation (body only writes other maps or deletes)")
	r.Rule("R2", "DET.forbidden-call: no time.Now/Since/Until, math/rand, crypto/rand, os.Getenv/Hostname/Getpid/ReadFile/Open, runtime.NumCPU/NumGoroutine/GOMAXPROCS, net.* in S, unless every use of the result flows only into telemetry/metrics/logging")
	r.Rule("R3", "DET.concurrency: no go statement, select, channel operation, sync.Mutex/WaitGroup in S")
	r.Rule("R4", "DET.global-write: no store to a package-level variable of a Haqq package from S")
	r.Rule("R5", "OWN.tps-counter: tpsCounter fields are touched only in app/tps_counter.go (plus atomic adds in DeliverTx's deferred closure) and DeliverTx returns exactly BaseApp.DeliverTx's response")
	r.Rule("R6", "DET.float: no floating-point arithmetic in S whose result reaches anything but telemetry")
	r.Rule("R7", "TABLE.module-orders: SetOrderBeginBlockers/EndBlockers/InitGenesis each list every module handed to module.NewManager")

	detMapRange(r, sc, inScope)
	detForbiddenCalls(r, sc, S)
	detConcurrency(r, sc, S)
	detGlobalWrites(r, sc, S)
	detTPS(r, sc)
	detFloat(r, sc, S)
	detModuleOrders(r)
	r.Rule("R8", "FLOW.node-local-config: values read from the node's app options (appOpts.Get → struct fields → constructor parameters, tracked interprocedurally) are used in consensus scope only under ctx.IsCheckTx()/IsReCheckTx(), or at tabled observer-only sites")
	checkNodeLocalConfig(r, "R8", sc)
	r.Rule("R9", "DET.unordered-keys: the result of maps.Keys/maps.Values in S∪K must be passed to a sort function in the same function")
	detMapsKeys(r, sc, inScope)
	r.Rule("R10", "OWN.process-local-state (same rule code as C20 R1): no consensus-scope write to memory that lives in the process (keeper/decorator/precompile fields, maps and concurrent containers they hold) — such a cache survives discarded branches (simulations, failed transactions) and restarts differently on every replica")
	r.Import("R10/C20.", []string{"R1"}, func(r2 *Run) { detProcessLocalWrites(r2, sc) })
	r.Rule("R11", "DET.local-time: a time.Time built in consensus scope from a timestamp (time.Unix / UnixMilli / UnixMicro, which return the host's local zone) or converted with Local()/In(time.Local) is not queried for calendar fields or formatted (Year, Month, Day, Hour, Weekday, YearDay, Date, Clock, ISOWeek, Format, String, AddDate, Truncate to days, Zone, Location, MarshalJSON/Text) unless it went through UTC() first: the result depends on the validator's TZ setting")
	detLocalTime(r, sc, S)
	r.Rule("R12", "OWN.shared-memory-through-aliases: (a) in consensus scope the receiver of a mutating math/big.Int / uint256.Int method never aliases a pointer held by a package-level variable of any package (common.Big1 and the like) — followed through phis, locals, big.Int's receiver-returning methods, functions that return a parameter, and math.BigMax/BigMin; (b) every package-level slice of a Haqq package that is used as the first argument of append has an initialiser with len == cap (composite literal, constant conversion, make(n, n)) — with spare capacity the append writes the one backing array that block execution and concurrent queries share")
	detSharedAliasWrites(r, sc, S, "R12")
	r.Rule("R14", "FLOW.node-configured-tracer-only-where-its-reads-are-free: a nil tracer handed to ApplyMessageWithConfig means 'the logger this node configured in app.toml (evm.tracer)'. The struct logger reads the storage slot of every SLOAD itself — a KV read the EVM does not make. On the Ethereum route that costs nothing (EthSetupContextDecorator installs an empty KV gas config); inside a Cosmos transaction it is charged to the transaction's gas meter on that node only, so GasUsed, and with a tight limit the outcome and the app hash, differ between nodes. In consensus scope a possibly-nil tracer therefore reaches ApplyMessageWithConfig only in ApplyTransaction, or over the failing edge of a test `fromType == <const>` in a function that every consensus-scope caller calls with that very constant")
	{
		nT := 0
		// premise: the eth route charges no KV gas
		if su, ok := P.FnOK("(app/ante/evm.EthSetupContextDecorator).AnteHandle"); ok {
			free := len(findCalls(su, func(ci CallInfo) bool { return ci.Name == "WithKVGasConfig" })) > 0
			r.Check(free, "R14", fnID(su)+"#eth-route-kv-reads-are-free", P.Pos(fnPos(su)), "installs an empty KV gas config", "EthSetupContextDecorator no longer installs an empty KV gas config: the configured tracer's state reads are charged on the Ethereum route as well")
		} else {
			r.Bad("R14", "anchor/EthSetupContextDecorator.AnteHandle", "", "not found")
		}
		for _, fn := range S {
			idx := 0
			eachCall(fn, func(ci CallInfo) {
				if ci.Name != "ApplyMessageWithConfig" {
					return
				}
				var tr ssa.Value
				for _, a := range ci.Instr.Common().Args {
					if namedName(a.Type()) == "EVMLogger" {
						tr = a
					}
				}
				if tr == nil {
					return
				}
				nT++
				idx++
				inst := fmt.Sprintf("%s#tracer-%d", fnID(outermost(fn)), idx)
				where := P.Pos(instrPos(ci.Instr))
				if c, ok := tr.(*ssa.Const); ok && c.IsNil() {
					r.Check(fnID(outermost(fn)) == "(*x/evm/keeper.Keeper).ApplyTransaction", "R14", inst, where, "nil tracer on the Ethereum route only", "a nil (node-configured) tracer is handed to ApplyMessageWithConfig in a consensus-scope function other than ApplyTransaction: on a node with evm.tracer = \"struct\" the logger's own storage reads are charged to the transaction's gas meter — GasUsed and, with a tight gas limit, the result differ from the other nodes", sc.S.Chain(fn)...)
					return
				}
				ph, isPhi := tr.(*ssa.Phi)
				if !isPhi {
					r.OK("R14", inst, where, "an explicit tracer value")
					return
				}
				okNil, want := true, ""
				var par *ssa.Parameter
				for i, e := range ph.Edges {
					c, isC := e.(*ssa.Const)
					if !isC || !c.IsNil() {
						continue
					}
					pred := ph.Block().Preds[i]
					iff, isIf := lastIf(pred)
					bo, _ := func() (*ssa.BinOp, bool) {
						if !isIf {
							return nil, false
						}
						b, ok := iff.Cond.(*ssa.BinOp)
						return b, ok
					}()
					if bo == nil || bo.Op != token.EQL || len(pred.Succs) != 2 || pred.Succs[1] != ph.Block() {
						okNil = false
						continue
					}
					// the tested value is a parameter (of this function, or of the enclosing one when the call sits in a closure)
					var p1 *ssa.Parameter
					switch x := bo.X.(type) {
					case *ssa.Parameter:
						p1 = x
					case *ssa.UnOp:
						if fv, ok := x.X.(*ssa.FreeVar); ok {
							if al, ok := freeVarBinding(fv).(*ssa.Alloc); ok {
								for _, w := range allocWriters(al) {
									if pp, ok := w.(*ssa.Parameter); ok {
										p1 = pp
									} else {
										p1 = nil
										break
									}
								}
							}
						}
					}
					k1, isK := bo.Y.(*ssa.Const)
					if p1 == nil || !isK || k1.Value == nil {
						okNil = false
						continue
					}
					par, want = p1, k1.Value.ExactString()
				}
				// every consensus-scope caller passes that constant
				if okNil && par != nil {
					pi := -1
					host := par.Parent()
					for i, p := range host.Params {
						if p == par {
							pi = i
						}
					}
					nCallers := 0
					for _, g := range S {
						if g.Synthetic != "" {
							continue // pointer-receiver wrappers forward their own parameter
						}
						eachCall(g, func(cj CallInfo) {
							if cj.Name != host.Name() {
								return
							}
							args := cj.Instr.Common().Args
							off := 0
							if cj.Invoke {
								off = 1 // Params[0] is the receiver, not among an invoke's Args
							}
							if pi-off < 0 || pi-off >= len(args) {
								okNil = false
								return
							}
							nCallers++
							if os.Getenv("HAQQCHECK_DEBUG") != "" {
								fmt.Fprintf(os.Stderr, "R14 caller %s arg=%v want=%s\n", fnID(g), args[pi-off], want)
							}
							k, isK := args[pi-off].(*ssa.Const)
							if !isK || k.Value == nil || k.Value.ExactString() != want {
								okNil = false
							}
						})
					}
					if nCallers == 0 {
						okNil = false
					}
				}
				r.Check(okNil, "R14", inst, where, "nil only behind `"+func() string {
					if par != nil {
						return par.Name() + " == " + want
					}
					return "?"
				}()+"` failing, and every consensus-scope caller passes that constant",
					"the tracer handed to ApplyMessageWithConfig can be nil (the node-configured logger) on a path that consensus-scope callers take: on a node with evm.tracer = \"struct\" the logger's storage reads are charged to the Cosmos transaction's gas meter (1255 gas per out-of-gas SLOAD in the estimator's failing trial runs) — that node reports another GasUsed and, with a tight limit, fails a transaction its peers execute", sc.S.Chain(fn)...)
			})
		}
		r.Floor("R14", "ApplyMessageWithConfig call sites in consensus scope", nT, 2)
	}
	r.Rule("R15", "PATH.begin-block-gas-is-not-left-on-the-block-context: baseapp runs the begin blockers on the block's deliver context, whose gas meter is never reset, and reports that meter's reading as GasUsed of every transaction that fails before the ante handler installs its own meter (undecodable bytes, an early-rejected message) — adding it to the block gas meter, from which x/feemarket derives the next base fee. What the begin blockers consume depends on the process: x/capability's InitMemStore and x/upgrade's downgrade check run only in the first BeginBlock after a start. So the app's BeginBlocker hands the context back with the meter refunded by what was consumed (RefundGas(GasConsumed())) on every return — otherwise one such transaction in a block (any proposer can include it) gives a restarted node another GasUsed, block gas, base fee and app hash")
	if bb, ok := P.FnOK("(*app.Haqq).BeginBlocker"); ok {
		isRefund := func(in ssa.Instruction) bool {
			c, ok := in.(ssa.CallInstruction)
			if !ok || callInfo(c).Name != "RefundGas" {
				return false
			}
			for _, a := range c.Common().Args {
				if backSlice(a).HasCall(func(g CallInfo) bool { return g.Name == "GasConsumed" }) {
					return true
				}
			}
			return false
		}
		isMM := isCallMatching(func(ci CallInfo) bool { return ci.Name == "BeginBlock" })
		var w []ssa.Instruction
		for _, mm := range findCalls(bb, func(ci CallInfo) bool { return ci.Name == "BeginBlock" }) {
			if p := (PathQuery{Fn: bb, Start: mm, Block: isRefund, Target: func(x ssa.Instruction) bool { _, ok := x.(*ssa.Return); return ok }}).Search(); p != nil {
				w = p
			}
		}
		n := len(findCalls(bb, func(ci CallInfo) bool { return ci.Name == "BeginBlock" }))
		_ = isMM
		r.Check(w == nil && n >= 1, "R15", fnID(bb)+"#meter-refunded-after-the-begin-blockers", P.Pos(fnPos(bb)), "every return after the module manager's BeginBlock passes RefundGas(GasConsumed())",
			"the app's BeginBlocker returns with the begin blockers' gas still on the block context's meter: baseapp charges it to transactions that fail before the ante handler, and its amount depends on whether the process was restarted since the last block", P.witness(w)...)
	} else {
		r.Bad("R15", "anchor/(*app.Haqq).BeginBlocker", "", "not found")
	}
	r.Rule("R16", "DET.no-addresses-in-formatted-text: an error string of a failed call becomes the transaction's VmError, is marshalled into the DeliverTx response data and hashed into LastResultsHash; fmt prints a pointer nested inside a formatted struct (an unexported *big.Int field of a *vm.Contract, say) as its heap address, which differs between replicas. In consensus scope no %v / %+v formatting call (fmt.Errorf/Sprintf/Sprint*, errors.Wrapf) is handed a pointer to — or a value of — a struct type that has pointer, map, channel or function fields and no String/Error/Format method of its own")
	{
		risky := func(t types.Type) (string, bool) {
			base := t
			if p, ok := t.Underlying().(*types.Pointer); ok {
				base = p.Elem()
			}
			st, ok := base.Underlying().(*types.Struct)
			if !ok {
				return "", false
			}
			for _, tt := range []types.Type{t, base, types.NewPointer(base)} {
				ms := types.NewMethodSet(tt)
				for _, m := range []string{"String", "Error", "Format", "GoString"} {
					if ms.Lookup(nil, m) != nil {
						return "", false
					}
				}
				for i := 0; i < ms.Len(); i++ {
					if n := ms.At(i).Obj().Name(); n == "String" || n == "Error" || n == "Format" {
						return "", false
					}
				}
			}
			for i := 0; i < st.NumFields(); i++ {
				switch st.Field(i).Type().Underlying().(type) {
				case *types.Pointer, *types.Map, *types.Chan, *types.Signature:
					return st.Field(i).Name(), true
				}
			}
			return "", false
		}
		nFmt := 0
		for _, fn := range sc.S.HaqqFuncs() {
			if isTestSupport(P, fn) {
				continue
			}
			idx := 0
			eachCall(fn, func(ci CallInfo) {
				switch ci.Name {
				case "Errorf", "Sprintf", "Sprint", "Sprintln", "Wrapf", "Wrap":
				default:
					return
				}
				if !(strings.HasSuffix(ci.PkgPath, "fmt") || strings.HasSuffix(ci.PkgPath, "errors")) {
					return
				}
				nFmt++
				usesV := ci.Name == "Sprint" || ci.Name == "Sprintln"
				for _, a := range ci.Instr.Common().Args {
					if k, ok := a.(*ssa.Const); ok && k.Value != nil && (strings.Contains(k.Value.String(), "%v") || strings.Contains(k.Value.String(), "%+v") || strings.Contains(k.Value.String(), "%#v")) {
						usesV = true
					}
				}
				if !usesV {
					return
				}
				args := ci.Instr.Common().Args
				if len(args) == 0 {
					return
				}
				// the elements of the variadic argument list: stores into the array behind the slice
				var elems []ssa.Value
				if sl, ok := args[len(args)-1].(*ssa.Slice); ok {
					if al, ok := sl.X.(*ssa.Alloc); ok && al.Referrers() != nil {
						for _, u := range *al.Referrers() {
							if ia, ok := u.(*ssa.IndexAddr); ok && ia.Referrers() != nil {
								for _, uu := range *ia.Referrers() {
									if st, ok := uu.(*ssa.Store); ok {
										elems = append(elems, st.Val)
									}
								}
							}
						}
					}
				}
				anyOf(elems, func(v ssa.Value) bool {
					mi, ok := v.(*ssa.MakeInterface)
					if !ok {
						return false
					}
					if f, bad := risky(mi.X.Type()); bad {
						idx++
						r.Bad("R16", fmt.Sprintf("%s#formats-a-struct-with-pointers-%d", fnID(fn), idx), P.Pos(instrPos(ci.Instr)), "a value of type "+mi.X.Type().String()+" (field "+f+" is a pointer/map/chan/func) is formatted with %v in consensus scope: fmt prints the nested pointer as a heap address, the text reaches the transaction result (VmError → response data → LastResultsHash) and two replicas report different results for the same transaction", sc.S.Chain(fn)...)
					}
					return false
				})
			})
		}
		r.Floor("R16", "formatting calls in consensus scope", nFmt, 50)
	}
	r.Rule("R13", "PATH.optional-recipient-dereferenced-under-guard: the tabled observer sites of R8 (the node-local evm.tracer selects the logger handed to the interpreter) are 'observers' only as long as they cannot fail: a panic in one of them is recovered per transaction by BaseApp, so only the node with that setting reports the transaction as failed. In consensus scope the result of a message's To() — nil for a contract creation — is dereferenced only over the non-nil edge of a comparison of To() with nil (the access-list tracer was built with *msg.To() unconditionally: every contract creation failed on nodes configured with it)")
	{
		nD := 0
		for _, fn := range S {
			if isGeneratedFile(P.FileOf(fnPos(fn))) {
				continue
			}
			isTo := func(v ssa.Value) (ssa.Value, bool) {
				c, ok := stripValue(v).(*ssa.Call)
				if !ok || callInfo(c).Name != "To" {
					return nil, false
				}
				if pt, ok := c.Type().Underlying().(*types.Pointer); !ok || namedName(pt.Elem()) != "Address" {
					return nil, false
				}
				a := callArgs(c)
				if len(a) == 0 {
					return nil, true
				}
				return stripValue(a[0]), true
			}
			eachInstr(fn, func(in ssa.Instruction) {
				u, ok := in.(*ssa.UnOp)
				if !ok || u.Op != token.MUL {
					return
				}
				recv, ok := isTo(u.X)
				if !ok {
					return
				}
				nD++
				_, ne := condEdges(fn, func(x, y ssa.Value) bool {
					r2, ok := isTo(x)
					return ok && r2 == recv && isNilConst(y)
				})
				w := PathQuery{Fn: fn, Target: func(x ssa.Instruction) bool { return x == in }, DelEdge: edgeSet(ne)}.Search()
				r.Check(w == nil && len(ne) > 0, "R13", fmt.Sprintf("%s#To-dereferenced-under-guard", fnID(fn)), P.Pos(instrPos(in)), "dereferenced only where To() != nil",
					"a message's To() is dereferenced without a nil test: for a contract creation the node panics at this point — if the code runs only under a node-local setting (a tracer kind), that node alone reports the transaction as failed and its app hash diverges", sc.S.Chain(fn)...)
			})
		}
		r.Floor("R13", "dereferences of a message's To() in consensus scope", nD, 1)
	}
	runDetControls(r)
	_ = P
}

// ---------- R1 map ranges ----------

// syntax lookup: map from *ast.RangeStmt position to enclosing ssa function is done via
// fn.Syntax(); we walk the AST of every in-scope function body (not nested FuncLits, which
// are separate ssa functions).
func detMapRange(r *Run, sc *Scopes, inScope map[*ssa.Function]string) {
	P := r.P
	n := 0
	var fns []*ssa.Function
	for f := range inScope {
		fns = append(fns, f)
	}
	sort.Slice(fns, func(i, j int) bool { return fnID(fns[i]) < fnID(fns[j]) })
	for _, fn := range fns {
		syn := fn.Syntax()
		if syn == nil {
			continue
		}
		if isGeneratedFile(P.FileOf(fnPos(fn))) {
			continue
		}
		info := P.PkgBy[fnPkgPath(fn)]
		if info == nil {
			continue
		}
		var body *ast.BlockStmt
		switch s := syn.(type) {
		case *ast.FuncDecl:
			body = s.Body
		case *ast.FuncLit:
			body = s.Body
		}
		if body == nil {
			continue
		}
		idx := 0
		ast.Inspect(body, func(nd ast.Node) bool {
			if _, ok := nd.(*ast.FuncLit); ok {
				return false
			}
			rs, ok := nd.(*ast.RangeStmt)
			if !ok {
				return true
			}
			tv, ok := info.TypesInfo.Types[rs.X]
			if !ok {
				return true
			}
			if _, isMap := tv.Type.Underlying().(*types.Map); !isMap {
				return true
			}
			n++
			idx++
			inst := fmt.Sprintf("%s#range-%s-%d", fnID(fn), types.ExprString(rs.X), idx)
			where := P.Pos(rs.Pos())
			ok2, why := mapRangeOrderInsensitive(info.TypesInfo, body, rs)
			if !ok2 {
				if reason, ok := mapRangeExceptions[fnID(fn)+"#"+types.ExprString(rs.X)]; ok {
					r.OK("R1", inst, where, "tabled exception: "+reason)
					return true
				}
			}
			chain := []string{}
			if !ok2 {
				if inScope[fn] == "S" {
					chain = sc.S.Chain(fn)
				} else {
					chain = sc.K.Chain(fn)
				}
			}
			r.Check(ok2, "R1", inst, where, why, "map iteration order can influence the result: "+why, chain...)
			return true
		})
	}
	r.Floor("R1", "map ranges in S∪K", n, 5)
}

// frozen exceptions, one symbol each, with reason (confirmed by reading)
var mapRangeExceptions = map[string]string{
	"app/upgrades/v1.7.5.processAccount#storage": "appends MsgRedeem into the caller-owned vector that TurnOffLiquidVesting sorts by sign bytes before any use; the per-entry calls only log",
}

// mapRangeOrderInsensitive decides the two accepted idioms syntactically on the typed AST.
func mapRangeOrderInsensitive(info *types.Info, fnBody *ast.BlockStmt, rs *ast.RangeStmt) (bool, string) {
	// collect identifiers bound by the range
	bound := map[types.Object]bool{}
	for _, e := range []ast.Expr{rs.Key, rs.Value} {
		if id, ok := e.(*ast.Ident); ok && id.Name != "_" {
			if o := info.Defs[id]; o != nil {
				bound[o] = true
			} else if o := info.Uses[id]; o != nil {
				bound[o] = true
			}
		}
	}
	// Idiom I2: every statement of the body is an assignment into a map index, a delete(),
	// or a commutative integer accumulation (x += int / x++), or an `if` guarding such statements
	// with no else-return/break.
	var targets []types.Object // slices appended to (I1)
	okBody := true
	why := ""
	var checkStmt func(s ast.Stmt)
	checkStmt = func(s ast.Stmt) {
		if !okBody {
			return
		}
		switch st := s.(type) {
		case *ast.AssignStmt:
			// m2[k] = v
			for i, lhs := range st.Lhs {
				if ix, ok := lhs.(*ast.IndexExpr); ok {
					if tv, ok := info.Types[ix.X]; ok {
						if _, isMap := tv.Type.Underlying().(*types.Map); isMap {
							continue
						}
					}
					// slice[i] = k with counter: accept as collect when slice is later sorted
					if id, ok := ix.X.(*ast.Ident); ok {
						if o := info.Uses[id]; o != nil {
							targets = append(targets, o)
							continue
						}
					}
				}
				// s = append(s, ...)
				if id, ok := lhs.(*ast.Ident); ok && i < len(st.Rhs) {
					if call, ok := st.Rhs[i].(*ast.CallExpr); ok {
						if fid, ok := call.Fun.(*ast.Ident); ok && fid.Name == "append" && len(call.Args) >= 1 {
							if a0, ok := call.Args[0].(*ast.Ident); ok && a0.Name == id.Name {
								if o := info.Uses[id]; o != nil {
									targets = append(targets, o)
									continue
								} else if o := info.Defs[id]; o != nil {
									targets = append(targets, o)
									continue
								}
							}
						}
					}
					// local temporaries defined from bound values: x := f(k) — allowed if pure use later
					if st.Tok == token.DEFINE {
						continue
					}
					// integer accumulation
					if st.Tok == token.ADD_ASSIGN || st.Tok == token.OR_ASSIGN {
						if tv, ok := info.Types[lhs]; ok {
							if b, ok := tv.Type.Underlying().(*types.Basic); ok && b.Info()&types.IsInteger != 0 {
								continue
							}
						}
					}
				}
				okBody = false
				why = "assignment to " + types.ExprString(lhs) + " inside the loop"
				return
			}
		case *ast.IncDecStmt:
			if tv, ok := info.Types[st.X]; ok {
				if b, ok := tv.Type.Underlying().(*types.Basic); ok && b.Info()&types.IsInteger != 0 {
					return
				}
			}
			okBody = false
			why = "inc/dec of non-integer"
		case *ast.ExprStmt:
			if call, ok := st.X.(*ast.CallExpr); ok {
				if fid, ok := call.Fun.(*ast.Ident); ok && fid.Name == "delete" {
					return
				}
			}
			okBody = false
			why = "call " + types.ExprString(st.X) + " executed once per map entry in iteration order"
		case *ast.IfStmt:
			if st.Init != nil {
				checkStmt(st.Init)
			}
			if hasCall(info, st.Cond) {
				// a condition with calls could have effects; allow only pure-looking method calls on bound values? be strict
				okBody = false
				why = "condition " + types.ExprString(st.Cond) + " calls a function per map entry"
				return
			}
			for _, s2 := range st.Body.List {
				checkStmt(s2)
			}
			if st.Else != nil {
				checkStmt(st.Else)
			}
		case *ast.BlockStmt:
			for _, s2 := range st.List {
				checkStmt(s2)
			}
		case *ast.BranchStmt:
			if st.Tok == token.CONTINUE {
				return
			}
			okBody = false
			why = "break/goto makes the set of visited entries order-dependent"
		case *ast.ReturnStmt:
			okBody = false
			why = "return inside the loop selects an entry by iteration order"
		case *ast.DeclStmt, *ast.EmptyStmt:
		default:
			okBody = false
			why = fmt.Sprintf("statement %T in map-range body", s)
		}
	}
	for _, s := range rs.Body.List {
		checkStmt(s)
	}
	if !okBody {
		return false, why
	}
	if len(targets) == 0 {
		return true, "map-to-map / order-insensitive accumulation"
	}
	// I1: each target slice must be sorted after the loop, before any other use.
	for _, t := range targets {
		sortIssue = ""
		if !sortedAfter(info, fnBody, rs, t) {
			if sortIssue != "" {
				return false, fmt.Sprintf("slice %s collects map entries in iteration order and the comparator it is sorted with %s: elements that agree on that part keep their map-iteration order", t.Name(), sortIssue)
			}
			return false, fmt.Sprintf("slice %s collects map entries in iteration order and is not sorted before use", t.Name())
		}
	}
	return true, "collect-then-sort"
}

func hasCall(info *types.Info, e ast.Expr) bool {
	found := false
	ast.Inspect(e, func(n ast.Node) bool {
		if c, ok := n.(*ast.CallExpr); ok {
			// conversions and len/cap are fine
			if tv, ok := info.Types[c.Fun]; ok && tv.IsType() {
				return true
			}
			if id, ok := c.Fun.(*ast.Ident); ok && (id.Name == "len" || id.Name == "cap") {
				return true
			}
			found = true
		}
		return true
	})
	return found
}

// sortedAfter: in the statement list that contains rs (or an ancestor list), the first later
// statement mentioning obj is a sort call on it.
func sortedAfter(info *types.Info, body *ast.BlockStmt, rs *ast.RangeStmt, obj types.Object) bool {
	// find path from body to rs
	var path []ast.Node
	var find func(n ast.Node) bool
	find = func(n ast.Node) bool {
		if n == nil {
			return false
		}
		if n == ast.Node(rs) {
			path = append(path, n)
			return true
		}
		found := false
		ast.Inspect(n, func(c ast.Node) bool {
			if found || c == nil {
				return false
			}
			if c == n {
				return true
			}
			if c.Pos() <= rs.Pos() && rs.End() <= c.End() {
				if find(c) {
					found = true
				}
				return false
			}
			return false
		})
		if found {
			path = append(path, n)
		}
		return found
	}
	if !find(body) {
		return false
	}
	// walk outwards: for each enclosing block, look at statements after the child
	child := ast.Node(rs)
	for _, anc := range path[1:] {
		var list []ast.Stmt
		switch b := anc.(type) {
		case *ast.BlockStmt:
			list = b.List
		case *ast.CaseClause:
			list = b.Body
		}
		if list != nil {
			after := false
			for _, s := range list {
				if after {
					if mentions(info, s, obj) {
						return isSortOf(info, s, obj)
					}
				}
				if s.Pos() <= child.Pos() && child.End() <= s.End() {
					after = true
				}
			}
		}
		child = anc
	}
	return false
}

func mentions(info *types.Info, n ast.Node, obj types.Object) bool {
	m := false
	ast.Inspect(n, func(c ast.Node) bool {
		if id, ok := c.(*ast.Ident); ok && (info.Uses[id] == obj || info.Defs[id] == obj) {
			m = true
		}
		return !m
	})
	return m
}

func isSortOf(info *types.Info, s ast.Stmt, obj types.Object) bool {
	es, ok := s.(*ast.ExprStmt)
	if !ok {
		return false
	}
	call, ok := es.X.(*ast.CallExpr)
	if !ok || len(call.Args) == 0 {
		return false
	}
	sel, ok := call.Fun.(*ast.SelectorExpr)
	if !ok {
		return false
	}
	pk, ok := sel.X.(*ast.Ident)
	if !ok {
		return false
	}
	pn, ok := info.Uses[pk].(*types.PkgName)
	if !ok {
		return false
	}
	path := pn.Imported().Path()
	if path != "sort" && path != "slices" && path != "golang.org/x/exp/slices" {
		return false
	}
	switch sel.Sel.Name {
	case "Strings", "Ints", "Slice", "SliceStable", "Sort", "Stable", "SortFunc", "SortStableFunc":
	default:
		return false
	}
	if !mentions(info, call.Args[0], obj) {
		return false
	}
	// the comparator must order whole elements: map keys are distinct, so a comparator over the entire key is
	// a total order and the sorted sequence is unique; a comparator that looks at a part of the element (a
	// sub-slice, one index, some of the fields) leaves ties in map-iteration order
	for _, a := range call.Args[1:] {
		if fl, ok := a.(*ast.FuncLit); ok {
			if why := partialComparator(info, fl, obj); why != "" {
				sortIssue = why
				return false
			}
		}
	}
	return true
}

// sortIssue carries the reason why the last sort call examined by isSortOf was rejected.
var sortIssue string

// partialComparator: the comparator closure projects the compared elements (S[i], S[j] of the sorted slice, or
// its own parameters for SortFunc) onto a part of them.
func partialComparator(info *types.Info, fl *ast.FuncLit, obj types.Object) string {
	isElem := func(e ast.Expr) bool {
		e = ast.Unparen(e)
		if ix, ok := e.(*ast.IndexExpr); ok {
			if id, ok := ast.Unparen(ix.X).(*ast.Ident); ok && info.Uses[id] == obj {
				return true
			}
		}
		if id, ok := e.(*ast.Ident); ok && fl.Type.Params != nil {
			for _, f := range fl.Type.Params.List {
				for _, n := range f.Names {
					if info.Defs[n] != nil && info.Uses[id] == info.Defs[n] {
						// parameters of element type (SortFunc style), not the int indices of sort.Slice
						if b, ok := info.Defs[n].Type().Underlying().(*types.Basic); ok && b.Info()&types.IsInteger != 0 {
							return false
						}
						return true
					}
				}
			}
		}
		return false
	}
	why := ""
	fieldsUsed := map[string]bool{}
	var structT *types.Struct
	ast.Inspect(fl.Body, func(n ast.Node) bool {
		switch x := n.(type) {
		case *ast.SliceExpr:
			if isElem(x.X) && (x.Low != nil || x.High != nil) {
				why = "compares the sub-slice " + types.ExprString(x) + " of each element"
			}
		case *ast.IndexExpr:
			if isElem(x.X) {
				why = "compares the single component " + types.ExprString(x) + " of each element"
			}
		case *ast.SelectorExpr:
			if isElem(x.X) {
				if sel, ok := info.Selections[x]; ok && sel.Kind() == types.FieldVal {
					fieldsUsed[x.Sel.Name] = true
					t := sel.Recv()
					if p, ok := t.Underlying().(*types.Pointer); ok {
						t = p.Elem()
					}
					if st, ok := t.Underlying().(*types.Struct); ok {
						structT = st
					}
				}
			}
		}
		return true
	})
	if why == "" && structT != nil && len(fieldsUsed) < structT.NumFields() {
		why = fmt.Sprintf("compares %d of the %d fields of each element", len(fieldsUsed), structT.NumFields())
	}
	return why
}

// ---------- R2 forbidden calls ----------

var forbiddenFuncs = map[string]map[string]bool{
	"time":        {"Now": true, "Since": true, "Until": true, "After": true, "Sleep": true, "Tick": true, "NewTimer": true, "NewTicker": true},
	"os":          {"Getenv": true, "LookupEnv": true, "Environ": true, "Hostname": true, "Getpid": true, "ReadFile": true, "Open": true, "OpenFile": true, "ReadDir": true, "Getwd": true, "Stat": true},
	"runtime":     {"NumCPU": true, "NumGoroutine": true, "GOMAXPROCS": true, "NumCgoCall": true, "ReadMemStats": true},
	"math/rand":   nil, // any function
	"crypto/rand": nil,
	"net":         nil,
	"net/http":    nil,
	"os/exec":     nil,
}

func forbiddenCall(ci CallInfo) (string, bool) {
	if ci.Obj == nil {
		return "", false
	}
	set, ok := forbiddenFuncs[ci.PkgPath]
	if !ok {
		return "", false
	}
	if set == nil || set[ci.Name] {
		if ci.Recv != "" && set != nil {
			return "", false
		}
		return ci.PkgPath + "." + ci.Name, true
	}
	return "", false
}

// telemetrySink: call into telemetry/metrics/logging packages.
func telemetrySink(ci CallInfo) bool {
	p := ci.PkgPath
	return strings.HasSuffix(p, "cosmos-sdk/telemetry") || strings.Contains(p, "armon/go-metrics") || strings.Contains(p, "hashicorp/go-metrics") ||
		strings.Contains(p, "cometbft/libs/log") || strings.Contains(p, "prometheus") ||
		(ci.Invoke && ci.Recv == "Logger")
}

// onlyFeedsTelemetry: every transitive use of v ends in a telemetry sink (or is dropped).
func onlyFeedsTelemetry(v ssa.Value, depth int, seen map[ssa.Value]bool) bool {
	if seen[v] {
		return true
	}
	seen[v] = true
	refs := v.Referrers()
	if refs == nil {
		return true
	}
	for _, ref := range *refs {
		switch x := ref.(type) {
		case ssa.CallInstruction:
			ci := callInfo(x)
			if telemetrySink(ci) {
				continue
			}
			// pure time arithmetic producing another value (time.Since(start), t.Sub, Seconds ...)
			if val := x.Value(); val != nil && (ci.PkgPath == "time") {
				if !onlyFeedsTelemetry(val, depth+1, seen) {
					return false
				}
				continue
			}
			return false
		case *ssa.DebugRef:
			continue
		case ssa.Value:
			switch x.(type) {
			case *ssa.Convert, *ssa.ChangeType, *ssa.MakeInterface, *ssa.BinOp, *ssa.UnOp, *ssa.Phi, *ssa.Extract, *ssa.Slice, *ssa.IndexAddr, *ssa.Field, *ssa.FieldAddr, *ssa.MakeClosure:
				if !onlyFeedsTelemetry(x, depth+1, seen) {
					return false
				}
			default:
				return false
			}
		case *ssa.Store:
			// stored into a local (e.g. variadic slice for a telemetry call, or captured var)
			root := addrRoot(x.Addr)
			if al, ok := root.(*ssa.Alloc); ok {
				if !onlyFeedsTelemetry(al, depth+1, seen) {
					return false
				}
				continue
			}
			return false
		default:
			return false
		}
	}
	return true
}

func detForbiddenCalls(r *Run, sc *Scopes, S []*ssa.Function) {
	P := r.P
	nTel := 0
	for _, fn := range S {
		if isGeneratedFile(P.FileOf(fnPos(fn))) {
			continue
		}
		k := 0
		eachCall(fn, func(ci CallInfo) {
			name, bad := forbiddenCall(ci)
			if !bad {
				return
			}
			k++
			inst := fmt.Sprintf("%s#%s", fnID(fn), name)
			where := P.Pos(instrPos(ci.Instr))
			if v := ci.Instr.Value(); v != nil && (ci.PkgPath == "time") {
				if _, isDefer := ci.Instr.(*ssa.Defer); !isDefer && onlyFeedsTelemetry(v, 0, map[ssa.Value]bool{}) {
					nTel++
					r.OK("R2", inst, where, "wall-clock value flows only into telemetry/logging")
					return
				}
			}
			r.Bad("R2", inst, where, "consensus-reachable code calls "+name+" (result depends on the node, not on block inputs)", sc.S.Chain(fn)...)
		})
	}
	r.Count("R2 telemetry-only clock reads", nTel)
}

// ---------- R3 concurrency ----------

func detConcurrency(r *Run, sc *Scopes, S []*ssa.Function) {
	P := r.P
	n := 0
	for _, fn := range S {
		if isGeneratedFile(P.FileOf(fnPos(fn))) {
			continue
		}
		report := func(in ssa.Instruction, what string) {
			n++
			r.Bad("R3", fmt.Sprintf("%s#%s", fnID(fn), what), P.Pos(instrPos(in)), "consensus-reachable code uses "+what+": the result can depend on goroutine scheduling", sc.S.Chain(fn)...)
		}
		eachInstr(fn, func(in ssa.Instruction) {
			switch x := in.(type) {
			case *ssa.Go:
				report(in, "go-statement")
			case *ssa.Select:
				report(in, "select")
			case *ssa.Send:
				report(in, "channel-send")
			case *ssa.UnOp:
				if x.Op == token.ARROW {
					report(in, "channel-receive")
				}
			case *ssa.MakeChan:
				report(in, "make-chan")
			case ssa.CallInstruction:
				ci := callInfo(x)
				if ci.PkgPath == "sync" && (ci.Recv == "WaitGroup" || ci.Recv == "Mutex" || ci.Recv == "RWMutex" || ci.Recv == "Once" || ci.Recv == "Cond") {
					report(in, "sync."+ci.Recv+"."+ci.Name)
				}
			}
		})
	}
	if n == 0 {
		r.OK("R3", "scope-S", "", fmt.Sprintf("no concurrency construct in %d consensus-scope functions", len(S)))
	}
}

// ---------- R4 global writes ----------

func detGlobalWrites(r *Run, sc *Scopes, S []*ssa.Function) {
	P := r.P
	n := 0
	for _, fn := range S {
		if isGeneratedFile(P.FileOf(fnPos(fn))) {
			continue
		}
		if fn.Name() == "init" || strings.HasPrefix(fn.Name(), "init#") {
			continue
		}
		eachInstr(fn, func(in ssa.Instruction) {
			var target ssa.Value
			switch x := in.(type) {
			case *ssa.Store:
				target = x.Addr
			case *ssa.MapUpdate:
				target = x.Map
			default:
				return
			}
			root := addrRoot(target)
			// map update on a loaded global map
			if u, ok := root.(*ssa.UnOp); ok && u.Op == token.MUL {
				root = addrRoot(u.X)
			}
			g, ok := root.(*ssa.Global)
			if !ok || g.Pkg == nil || !isHaqqPath(g.Pkg.Pkg.Path()) {
				return
			}
			n++
			key := fmt.Sprintf("%s#write-%s.%s", fnID(fn), strings.TrimPrefix(g.Pkg.Pkg.Path(), haqqMod+"/"), g.Name())
			if reason, ok := globalWriteExceptions[key]; ok {
				r.OK("R4", key, P.Pos(instrPos(in)), "tabled exception: "+reason)
				return
			}
			r.Bad("R4", key, P.Pos(instrPos(in)), "consensus-reachable code writes package-level variable "+g.Name()+" (process-local state that can influence later blocks)", sc.S.Chain(fn)...)
		})
	}
	// delete()/clear() on a package-level map, and a package-level map handed to a function that writes into it
	globalMap := func(v ssa.Value) *ssa.Global {
		var g *ssa.Global
		backSlice(v).Any(func(x ssa.Value) bool {
			if gg, ok := x.(*ssa.Global); ok && gg.Pkg != nil && isHaqqPath(gg.Pkg.Pkg.Path()) {
				if _, isMap := deref(gg.Type()).Underlying().(*types.Map); isMap {
					g = gg
				}
			}
			return g != nil
		})
		return g
	}
	for _, fn := range S {
		if isGeneratedFile(P.FileOf(fnPos(fn))) || fn.Name() == "init" || strings.HasPrefix(fn.Name(), "init#") {
			continue
		}
		eachInstr(fn, func(in ssa.Instruction) {
			c, ok := in.(ssa.CallInstruction)
			if !ok {
				return
			}
			report := func(g *ssa.Global, how string) {
				n++
				key := fmt.Sprintf("%s#write-%s.%s", fnID(fn), strings.TrimPrefix(g.Pkg.Pkg.Path(), haqqMod+"/"), g.Name())
				if reason, ok := globalWriteExceptions[key]; ok {
					r.OK("R4", key, P.Pos(instrPos(in)), "tabled exception: "+reason)
					return
				}
				r.Bad("R4", key, P.Pos(instrPos(in)), "consensus-reachable code "+how+" the package-level map "+g.Name()+" (process-local state shared by every transaction, simulation and CheckTx of the process)", sc.S.Chain(fn)...)
			}
			if b, isB := c.Common().Value.(*ssa.Builtin); isB {
				if (b.Name() == "delete" || b.Name() == "clear") && len(c.Common().Args) > 0 {
					if g := globalMap(c.Common().Args[0]); g != nil {
						report(g, "removes entries from")
					}
				}
				return
			}
			callee := c.Common().StaticCallee()
			if callee == nil || !isHaqqPath(fnPkgPath(callee)) {
				return
			}
			mp := mutatesMapParam(callee)
			for i, a := range c.Common().Args {
				if mp[i] {
					if g := globalMap(a); g != nil {
						report(g, "hands to the writer "+fnID(callee))
					}
				}
			}
		})
	}
	if n == 0 {
		r.OK("R4", "scope-S", "", fmt.Sprintf("no package-level variable is written in %d consensus-scope functions", len(S)))
	}
}

var globalWriteExceptions = map[string]string{}

// ---------- R5 TPS counter ----------

func detTPS(r *Run, sc *Scopes) {
	P := r.P
	tn := P.LookupType(haqqMod+"/app", "tpsCounter")
	if tn == nil {
		r.Note("app.tpsCounter does not exist on this tree; R5 has no instance")
		return
	}
	n := 0
	bad := 0
	for _, fn := range P.Funcs {
		if isTestSupport(P, fn) {
			continue
		}
		file := P.FileOf(fnPos(outermost(fn)))
		eachInstr(fn, func(in ssa.Instruction) {
			fa, ok := in.(*ssa.FieldAddr)
			if !ok {
				return
			}
			if namedName(fa.X.Type()) != "tpsCounter" || namedPkgPath(fa.X.Type()) != haqqMod+"/app" {
				return
			}
			n++
			if strings.HasSuffix(file, "app/tps_counter.go") {
				return
			}
			// elsewhere: only as the argument of atomic.Add*
			okUse := true
			if fa.Referrers() != nil {
				for _, ref := range *fa.Referrers() {
					c, ok := ref.(ssa.CallInstruction)
					if !ok {
						okUse = false
						continue
					}
					ci := callInfo(c)
					if !(ci.PkgPath == "sync/atomic" && strings.HasPrefix(ci.Name, "Add")) {
						okUse = false
					}
					if v := c.Value(); v != nil && v.Referrers() != nil && len(*v.Referrers()) > 0 {
						okUse = false // result of the add is used
					}
				}
			}
			if !okUse {
				bad++
				_, f, _ := fieldOfAddr(fa)
				r.Bad("R5", fmt.Sprintf("%s#tpsCounter.%s", fnID(fn), f), P.Pos(instrPos(in)), "tpsCounter field is read or written outside app/tps_counter.go by something other than a write-only atomic add")
			}
		})
	}
	r.Floor("R5", "tpsCounter field accesses", n, 4)
	if bad == 0 {
		r.OK("R5", "tpsCounter-observers", "", "counter fields are write-only outside app/tps_counter.go")
	}
	// DeliverTx returns BaseApp.DeliverTx's response unmodified
	if fn, ok := P.FnOK("(*app.Haqq).DeliverTx"); ok {
		okRes := true
		detail := ""
		for _, f := range withAnon(fn) {
			eachInstr(f, func(in ssa.Instruction) {
				st, ok := in.(*ssa.Store)
				if !ok {
					return
				}
				root := addrRoot(st.Addr)
				var al *ssa.Alloc
				if a, ok := root.(*ssa.Alloc); ok {
					al = a
				} else if fv, ok := root.(*ssa.FreeVar); ok {
					if b, ok := freeVarBinding(fv).(*ssa.Alloc); ok {
						al = b
					}
				}
				if al == nil || namedName(al.Type()) != "ResponseDeliverTx" {
					return
				}
				// allowed: storing the result of BaseApp.DeliverTx
				if c, ok := st.Val.(*ssa.Call); ok {
					ci := callInfo(c)
					if ci.Name == "DeliverTx" && ci.Recv == "BaseApp" {
						return
					}
				}
				okRes = false
				detail = "store to the DeliverTx response at " + P.Pos(instrPos(in))
			})
		}
		r.Check(okRes, "R5", "(*app.Haqq).DeliverTx#response", P.Pos(fnPos(fn)), "response is exactly BaseApp.DeliverTx's", "the DeliverTx response is modified by the wrapper: "+detail)
	} else {
		r.Bad("R5", "anchor/(*app.Haqq).DeliverTx", "", "DeliverTx wrapper not found")
	}
}

// ---------- R6 float ----------

func detFloat(r *Run, sc *Scopes, S []*ssa.Function) {
	P := r.P
	n := 0
	nOK := 0
	for _, fn := range S {
		if isGeneratedFile(P.FileOf(fnPos(fn))) {
			continue
		}
		eachInstr(fn, func(in ssa.Instruction) {
			v, ok := in.(ssa.Value)
			if !ok {
				return
			}
			switch in.(type) {
			case *ssa.BinOp, *ssa.Convert, *ssa.Call:
			default:
				return
			}
			bt, ok := v.Type().Underlying().(*types.Basic)
			if !ok || bt.Info()&types.IsFloat == 0 {
				return
			}
			n++
			what := strings.TrimPrefix(fmt.Sprintf("%T", in), "*ssa.")
			if onlyFeedsTelemetry(v, 0, map[ssa.Value]bool{}) {
				nOK++
				r.OK("R6", fmt.Sprintf("%s#float-%s", fnID(fn), what), P.Pos(instrPos(in)), "float value flows only into telemetry")
				return
			}
			r.Bad("R6", fmt.Sprintf("%s#float-%s", fnID(fn), what), P.Pos(instrPos(in)), "a floating-point value computed in consensus scope reaches a non-telemetry use (platform-dependent rounding)", sc.S.Chain(fn)...)
		})
	}
	r.Count("R6 float operations in S", n)
	if n == nOK {
		r.OK("R6", "scope-S", "", fmt.Sprintf("%d float operations, all telemetry-only", n))
	}
}

// ---------- R7 module orders ----------

func detModuleOrders(r *Run) {
	P := r.P
	fn, ok := P.FnOK("app.NewHaqq")
	if !ok {
		r.Bad("R7", "anchor/app.NewHaqq", "", "NewHaqq not found")
		return
	}
	info := P.PkgBy[haqqMod+"/app"]
	decl, _ := fn.Syntax().(*ast.FuncDecl)
	if decl == nil || info == nil {
		r.Fail("no syntax for NewHaqq")
		return
	}
	var managerMods []string
	orders := map[string][]string{}
	ast.Inspect(decl.Body, func(n ast.Node) bool {
		call, ok := n.(*ast.CallExpr)
		if !ok {
			return true
		}
		sel, ok := call.Fun.(*ast.SelectorExpr)
		if !ok {
			return true
		}
		switch sel.Sel.Name {
		case "NewManager":
			if id, ok := sel.X.(*ast.Ident); ok {
				if pn, ok := info.TypesInfo.Uses[id].(*types.PkgName); ok && strings.HasSuffix(pn.Imported().Path(), "types/module") {
					for _, a := range call.Args {
						managerMods = append(managerMods, types.ExprString(a))
					}
				}
			}
		case "SetOrderBeginBlockers", "SetOrderEndBlockers", "SetOrderInitGenesis":
			var names []string
			for _, a := range call.Args {
				tv, ok := info.TypesInfo.Types[a]
				if ok && tv.Value != nil {
					names = append(names, strings.Trim(tv.Value.ExactString(), "\""))
				} else {
					r.Bad("R7", "app.NewHaqq#"+sel.Sel.Name+"/non-constant", P.Pos(a.Pos()), "module order argument "+types.ExprString(a)+" is not a compile-time constant")
				}
			}
			orders[sel.Sel.Name] = names
		}
		return true
	})
	r.Floor("R7", "modules in NewManager", len(managerMods), 27)
	for _, o := range []string{"SetOrderBeginBlockers", "SetOrderEndBlockers", "SetOrderInitGenesis"} {
		names, ok := orders[o]
		if !ok {
			r.Bad("R7", "app.NewHaqq#"+o, "", o+" is not called in NewHaqq")
			continue
		}
		set := map[string]bool{}
		dup := ""
		for _, n := range names {
			if set[n] {
				dup = n
			}
			set[n] = true
		}
		ref := orders["SetOrderBeginBlockers"]
		refSet := map[string]bool{}
		for _, n := range ref {
			refSet[n] = true
		}
		var diff []string
		for _, n := range names {
			if !refSet[n] {
				diff = append(diff, "+"+n)
			}
		}
		for _, n := range ref {
			if !set[n] {
				diff = append(diff, "-"+n)
			}
		}
		r.Check(len(diff) == 0 && dup == "" && len(set) == len(managerMods), "R7", "app.NewHaqq#"+o, P.Pos(fnPos(fn)), fmt.Sprintf("%d distinct constant module names = %d modules in NewManager, same set in all three orders", len(set), len(managerMods)),
			fmt.Sprintf("%s lists %d distinct modules, NewManager has %d, difference to BeginBlockers order: %v, duplicate: %q", o, len(set), len(managerMods), diff, dup))
	}
	// crisis first in EndBlockers is C15; here only completeness.
}

// ---------- R9 maps.Keys / maps.Values ----------

func detMapsKeys(r *Run, sc *Scopes, inScope map[*ssa.Function]string) {
	P := r.P
	n := 0
	var fns []*ssa.Function
	for f := range inScope {
		fns = append(fns, f)
	}
	sort.Slice(fns, func(i, j int) bool { return fnID(fns[i]) < fnID(fns[j]) })
	for _, fn := range fns {
		if isGeneratedFile(P.FileOf(fnPos(fn))) {
			continue
		}
		eachCall(fn, func(ci CallInfo) {
			if !((ci.PkgPath == "maps" || strings.HasSuffix(ci.PkgPath, "x/exp/maps")) && (ci.Name == "Keys" || ci.Name == "Values")) {
				return
			}
			n++
			v := ci.Instr.Value()
			sorted := false
			if v != nil {
				seen := map[ssa.Value]bool{}
				var walk func(x ssa.Value)
				walk = func(x ssa.Value) {
					if seen[x] || x.Referrers() == nil {
						return
					}
					seen[x] = true
					for _, ref := range *x.Referrers() {
						switch y := ref.(type) {
						case ssa.CallInstruction:
							c := callInfo(y)
							if (c.PkgPath == "sort" || c.PkgPath == "slices" || strings.HasSuffix(c.PkgPath, "x/exp/slices")) && (strings.HasPrefix(c.Name, "Sort") || c.Name == "Strings" || c.Name == "Ints" || c.Name == "Slice" || c.Name == "SliceStable" || c.Name == "Stable") {
								sorted = true
							}
						case *ssa.Store:
							if al, ok := y.Addr.(*ssa.Alloc); ok {
								walk(al)
							}
						case *ssa.UnOp:
							walk(y)
						case *ssa.ChangeType:
							walk(y)
						case *ssa.MakeInterface:
							walk(y)
						case *ssa.Phi:
							walk(y)
						}
					}
				}
				walk(v)
			}
			chain := sc.S.Chain(fn)
			if inScope[fn] == "K" {
				chain = sc.K.Chain(fn)
			}
			r.Check(sorted, "R9", fmt.Sprintf("%s#%s.%s", fnID(fn), "maps", ci.Name), P.Pos(instrPos(ci.Instr)), "unordered key/value slice is sorted before use",
				"maps."+ci.Name+" returns the entries in Go's randomised map order and the result is not sorted in this function: anything derived from its order differs between replicas", chain...)
		})
	}
	r.Count("R9 maps.Keys/Values calls in S∪K", n)
}

// ---------- R11 local time ----------

var calendarMethods = map[string]bool{"Year": true, "Month": true, "Day": true, "Hour": true, "Minute": true, "Weekday": true, "YearDay": true,
	"Date": true, "Clock": true, "ISOWeek": true, "Format": true, "AppendFormat": true, "String": true, "GoString": true, "AddDate": true, "Zone": true,
	"ZoneBounds": true, "Location": true, "MarshalJSON": true, "MarshalText": true, "IsDST": true}

func detLocalTime(r *Run, sc *Scopes, S []*ssa.Function) {
	P := r.P
	n, bad := 0, 0
	for _, fn := range S {
		if isGeneratedFile(P.FileOf(fnPos(fn))) {
			continue
		}
		eachCall(fn, func(ci CallInfo) {
			local := ci.PkgPath == "time" && ci.Recv == "" && (ci.Name == "Unix" || ci.Name == "UnixMilli" || ci.Name == "UnixMicro")
			local = local || (ci.PkgPath == "time" && ci.Recv == "Time" && ci.Name == "Local")
			if !local {
				return
			}
			v := ci.Instr.Value()
			if v == nil {
				return
			}
			n++
			// follow the local-zone time value inside this function (through copies, phis, locals and into
			// Haqq callees one level) until UTC()/In()/Unix*() is applied
			type item struct {
				v     ssa.Value
				depth int
			}
			seen := map[ssa.Value]bool{}
			work := []item{{v, 0}}
			report := func(at ssa.Instruction, what string) {
				bad++
				r.Bad("R11", fmt.Sprintf("%s#local-time-%s", fnID(fn), what), P.Pos(instrPos(at)),
					"a time value in the host's local zone (from time."+ci.Name+") is queried with "+what+" in consensus scope: the result depends on the node's TZ setting", sc.S.Chain(fn)...)
			}
			for len(work) > 0 {
				it := work[len(work)-1]
				work = work[:len(work)-1]
				if seen[it.v] || it.v.Referrers() == nil {
					continue
				}
				seen[it.v] = true
				for _, ref := range *it.v.Referrers() {
					switch x := ref.(type) {
					case *ssa.Phi, *ssa.ChangeType, *ssa.MakeInterface:
						work = append(work, item{x.(ssa.Value), it.depth})
					case *ssa.Store:
						if al, ok := x.Addr.(*ssa.Alloc); ok && x.Val == it.v {
							for _, r2 := range *al.Referrers() {
								if u, ok := r2.(*ssa.UnOp); ok && u.Op == token.MUL {
									work = append(work, item{u, it.depth})
								}
							}
						}
					case ssa.CallInstruction:
						c2 := callInfo(x)
						args := x.Common().Args
						isRecv := !c2.Invoke && c2.Static != nil && c2.Static.Signature.Recv() != nil && len(args) > 0 && args[0] == it.v
						if isRecv && c2.PkgPath == "time" {
							if calendarMethods[c2.Name] {
								report(x, c2.Name)
							}
							continue // UTC, In, Unix*, Before/After/Equal/Sub/Add (absolute) are zone-independent
						}
						// handed to a Haqq function: follow the parameter one level
						if c2.Static != nil && c2.Static.Blocks != nil && it.depth < 2 && isHaqqPath(fnPkgPath(c2.Static)) {
							for i, a := range args {
								if a == it.v && i < len(c2.Static.Params) {
									work = append(work, item{c2.Static.Params[i], it.depth + 1})
								}
							}
						}
					}
				}
			}
		})
	}
	r.Count("R11 local-zone time constructions in S", n)
	if bad == 0 {
		r.OK("R11", "scope-S", "", fmt.Sprintf("%d local-zone time values constructed in consensus scope, none queried for calendar fields", n))
	}
}

func anyOf(vs []ssa.Value, f func(ssa.Value) bool) bool {
	for _, v := range vs {
		if f(v) {
			return true
		}
	}
	return false
}
