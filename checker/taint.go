package main

import (
	"fmt"
	"go/token"
	"go/types"
	"sort"
	"strings"

	"golang.org/x/tools/go/ssa"
)

// Node-local configuration taint (C01 R8 / C20): values read from the node's app options
// (app.toml / CLI flags: servertypes.AppOptions.Get) are tracked through struct fields
// (type-level, field-sensitive), constructor parameters, closures and function results across
// all non-test Haqq code. In consensus scope a tainted value may only be used where
// ctx.IsCheckTx()/IsReCheckTx() is known true (mempool admission is node-local by design),
// or at a tabled observer-only site.

type taintState struct {
	fields  map[string]string         // "pkg.Type.field" -> origin
	params  map[*ssa.Parameter]string // tainted parameters
	freevar map[*ssa.FreeVar]string
	results map[*ssa.Function]string
	globals map[*ssa.Global]string
}

func fieldKeyOfAddr(v ssa.Value) (string, bool) {
	fa, ok := v.(*ssa.FieldAddr)
	if !ok {
		return "", false
	}
	sn, f, ok := fieldOfAddr(fa)
	if !ok || sn == "" {
		return "", false
	}
	return namedPkgPath(fa.X.Type()) + "." + sn + "." + f, true
}

func fieldKeyOfValue(v ssa.Value) (string, bool) {
	f, ok := v.(*ssa.Field)
	if !ok {
		return "", false
	}
	sn, fn, ok := fieldOfValue(f)
	if !ok || sn == "" {
		return "", false
	}
	return namedPkgPath(f.X.Type()) + "." + sn + "." + fn, true
}

func isAppOptSource(ci CallInfo) bool {
	return ci.Invoke && ci.Name == "Get" && ci.Recv == "AppOptions"
}

// taintOf computes the tainted values of fn under the current interprocedural state.
func (ts *taintState) taintOf(fn *ssa.Function) map[ssa.Value]string {
	t := map[ssa.Value]string{}
	for _, p := range fn.Params {
		if o, ok := ts.params[p]; ok {
			t[p] = o
		}
	}
	for _, fv := range fn.FreeVars {
		if o, ok := ts.freevar[fv]; ok {
			t[fv] = o
		}
	}
	changed := true
	for changed {
		changed = false
		for _, b := range fn.Blocks {
			for _, in := range b.Instrs {
				v, ok := in.(ssa.Value)
				if !ok {
					// stores into local allocs propagate to the alloc
					if st, ok := in.(*ssa.Store); ok {
						if o, ok := t[st.Val]; ok {
							root := addrRoot(st.Addr)
							if _, isAl := root.(*ssa.Alloc); isAl {
								if _, has := t[root]; !has {
									t[root] = o
									changed = true
								}
							}
						}
					}
					continue
				}
				if _, has := t[v]; has {
					continue
				}
				origin := ""
				switch x := in.(type) {
				case *ssa.Call:
					ci := callInfo(x)
					if isAppOptSource(ci) {
						origin = "appOpts.Get at " + fnID(fn)
					} else if ci.Static != nil {
						if o, ok := ts.results[ci.Static]; ok {
							origin = o
						}
					}
					if origin == "" {
						for _, a := range callArgs(x) {
							if o, ok := t[a]; ok {
								// results of pure conversions/helpers depend on their arguments
								origin = o
								break
							}
						}
					}
				case *ssa.UnOp:
					if x.Op == token.MUL {
						if k, ok := fieldKeyOfAddr(x.X); ok {
							if o, ok := ts.fields[k]; ok {
								origin = o
								if _, ex := nodeLocalConfigExceptions[k]; ex || checkTxGuarded(in.Block()) {
									// observer-only field, or read on a path that only exists in CheckTx:
									// whatever is derived from it cannot reach DeliverTx results
									origin = ""
									break
								}
							}
						}
						if g, ok := x.X.(*ssa.Global); ok {
							if o, ok := ts.globals[g]; ok {
								origin = o
							}
						}
						if origin == "" {
							if o, ok := t[addrRoot(x.X)]; ok {
								if _, isAl := addrRoot(x.X).(*ssa.Alloc); isAl {
									// load from a tainted local: only if the same field path was tainted; keep coarse
									origin = o
								}
							}
						}
					}
					if origin == "" {
						if o, ok := t[x.X]; ok {
							origin = o
						}
					}
				case *ssa.Field:
					if k, ok := fieldKeyOfValue(x); ok {
						if o, ok := ts.fields[k]; ok {
							origin = o
							if _, ex := nodeLocalConfigExceptions[k]; ex || checkTxGuarded(in.Block()) {
								origin = ""
							}
						}
					}
				case *ssa.Alloc, *ssa.FieldAddr, *ssa.IndexAddr, *ssa.MakeClosure:
					// addresses / closures are not values derived from config
				default:
					for _, op := range in.Operands(nil) {
						if op != nil && *op != nil {
							if o, ok := t[*op]; ok {
								origin = o
								break
							}
						}
					}
				}
				if origin != "" && !carriesConfig(v) {
					origin = ""
				}
				if origin != "" {
					t[v] = origin
					changed = true
				}
			}
		}
	}
	return t
}

func computeTaint(P *Prog) *taintState {
	ts := &taintState{fields: map[string]string{}, params: map[*ssa.Parameter]string{}, freevar: map[*ssa.FreeVar]string{}, results: map[*ssa.Function]string{}, globals: map[*ssa.Global]string{}}
	var fns []*ssa.Function
	for _, fn := range P.Funcs {
		if isTestSupport(P, fn) {
			continue
		}
		rel := strings.TrimPrefix(fnPkgPath(fn), haqqMod+"/")
		if strings.HasPrefix(rel, "cmd/") || strings.HasPrefix(rel, "server") || strings.HasPrefix(rel, "rpc") || strings.HasPrefix(rel, "client") || strings.HasPrefix(rel, "indexer") {
			continue
		}
		if isGeneratedFile(P.FileOf(fnPos(outermost(fn)))) {
			continue
		}
		fns = append(fns, fn)
	}
	for round := 0; round < 12; round++ {
		before := len(ts.fields) + len(ts.params) + len(ts.freevar) + len(ts.results) + len(ts.globals)
		for _, fn := range fns {
			t := ts.taintOf(fn)
			if len(t) == 0 {
				continue
			}
			eachInstr(fn, func(in ssa.Instruction) {
				switch x := in.(type) {
				case *ssa.Store:
					o, ok := t[x.Val]
					if !ok {
						return
					}
					if k, ok := fieldKeyOfAddr(x.Addr); ok {
						if _, has := ts.fields[k]; !has {
							ts.fields[k] = o
						}
					}
					if g, ok := x.Addr.(*ssa.Global); ok {
						if _, has := ts.globals[g]; !has {
							ts.globals[g] = o
						}
					}
				case *ssa.Return:
					for _, rv := range x.Results {
						if o, ok := t[rv]; ok {
							if _, has := ts.results[fn]; !has {
								ts.results[fn] = o
							}
						}
					}
				case *ssa.MakeClosure:
					if cf, ok := x.Fn.(*ssa.Function); ok {
						for i, b := range x.Bindings {
							o, ok := t[b]
							if !ok {
								if al, isAl := b.(*ssa.Alloc); isAl {
									o, ok = t[al]
								}
							}
							if ok && i < len(cf.FreeVars) {
								if _, has := ts.freevar[cf.FreeVars[i]]; !has {
									ts.freevar[cf.FreeVars[i]] = o
								}
							}
						}
					}
				case ssa.CallInstruction:
					sc := x.Common().StaticCallee()
					if sc == nil || sc.Blocks == nil || !isHaqqPath(fnPkgPath(sc)) {
						return
					}
					for i, a := range x.Common().Args {
						if o, ok := t[a]; ok && i < len(sc.Params) && carriesConfig(sc.Params[i]) {
							if _, has := ts.params[sc.Params[i]]; !has {
								ts.params[sc.Params[i]] = o
							}
						}
					}
				}
			})
		}
		after := len(ts.fields) + len(ts.params) + len(ts.freevar) + len(ts.results) + len(ts.globals)
		if after == before {
			break
		}
	}
	return ts
}

// observer-only uses of node-local configuration in consensus scope, one symbol each, with reason
var nodeLocalConfigExceptions = map[string]string{
	"github.com/haqq-network/haqq/x/evm/keeper.Keeper.tracer": "selects the vm.EVMLogger implementation handed to the interpreter; loggers only observe execution (no StateDB writes), vm.Config.Debug does not change results",
}

func checkNodeLocalConfig(r *Run, rule string, sc *Scopes) {
	P := r.P
	ts := computeTaint(P)
	r.Count(rule+" node-local config: tainted struct fields", len(ts.fields))
	var fkeys []string
	for k := range ts.fields {
		fkeys = append(fkeys, strings.TrimPrefix(k, haqqMod+"/"))
	}
	sort.Strings(fkeys)
	r.Note("%s: fields carrying node-local configuration: %s", rule, strings.Join(fkeys, ", "))
	if len(ts.fields) < 2 {
		r.Bad(rule, "floor/node-local-config-fields", "", fmt.Sprintf("taint analysis found only %d field(s) fed from appOpts; the reference tree has at least HandlerOptions.MaxTxGasWanted and EthGasConsumeDecorator.maxGasWanted", len(ts.fields)))
	}
	nUses := 0
	for _, fn := range sc.S.HaqqFuncs() {
		if isGeneratedFile(P.FileOf(fnPos(fn))) || isTestSupport(P, fn) {
			continue
		}
		// edges on which IsCheckTx()/IsReCheckTx() is true
		var checkTxBlocks []*ssa.BasicBlock
		for _, b := range fn.Blocks {
			ifi, ok := lastIf(b)
			if !ok {
				continue
			}
			if c, ok := ifi.Cond.(*ssa.Call); ok {
				n := callInfo(c).Name
				if (n == "IsCheckTx" || n == "IsReCheckTx") && len(b.Succs[0].Preds) == 1 {
					checkTxBlocks = append(checkTxBlocks, b.Succs[0])
				}
			}
		}
		guarded := func(b *ssa.BasicBlock) bool {
			for _, cb := range checkTxBlocks {
				if dominates(cb, b) {
					return true
				}
			}
			return false
		}
		seen := map[string]bool{}
		eachInstr(fn, func(in ssa.Instruction) {
			// a "use" is the first materialisation of a tainted value from a field/param/freevar in this function
			var key, origin string
			switch x := in.(type) {
			case *ssa.UnOp:
				if x.Op != token.MUL {
					return
				}
				if k, ok := fieldKeyOfAddr(x.X); ok {
					if o, ok := ts.fields[k]; ok {
						key, origin = k, o
					}
				}
			case *ssa.Field:
				if k, ok := fieldKeyOfValue(x); ok {
					if o, ok := ts.fields[k]; ok {
						key, origin = k, o
					}
				}
			}
			if key == "" {
				return
			}
			nUses++
			inst := fmt.Sprintf("%s#uses-%s", fnID(fn), strings.TrimPrefix(key, haqqMod+"/"))
			if seen[inst] {
				return
			}
			if why, ok := nodeLocalConfigExceptions[key]; ok {
				seen[inst] = true
				r.OK(rule, inst, P.Pos(instrPos(in)), "tabled observer-only use: "+why)
				return
			}
			if guarded(in.Block()) {
				r.OK(rule, inst, P.Pos(instrPos(in)), "used only where ctx.IsCheckTx()/IsReCheckTx() holds (mempool admission is node-local)")
				return
			}
			if v, ok := in.(ssa.Value); ok && onlyForwarded(v, map[ssa.Value]bool{}) {
				r.OK(rule, inst, P.Pos(instrPos(in)), "value is only copied into a field / handed to a Haqq constructor here (tracked further by the taint analysis)")
				return
			}
			seen[inst] = true
			r.Bad(rule, inst, P.Pos(instrPos(in)), "consensus-reachable code reads a value that comes from the node's local configuration ("+origin+") outside a CheckTx-only branch: two replicas with different app.toml/flags can produce different results", sc.S.Chain(fn)...)
		})
		// tainted parameters used in S functions (constructor params are in K, not S)
		for _, p := range fn.Params {
			if o, ok := ts.params[p]; ok && p.Referrers() != nil && len(*p.Referrers()) > 0 {
				inst := fmt.Sprintf("%s#param-%s", fnID(fn), p.Name())
				allGuarded := true
				if !onlyForwarded(p, map[ssa.Value]bool{}) {
					for _, ref := range *p.Referrers() {
						if !guarded(ref.Block()) {
							allGuarded = false
						}
					}
				}
				nUses++
				r.Check(allGuarded, rule, inst, P.Pos(fnPos(fn)), "tainted parameter used only under IsCheckTx", "a parameter carrying node-local configuration ("+o+") is used in consensus-reachable code outside a CheckTx-only branch", sc.S.Chain(fn)...)
			}
		}
	}
	r.Count(rule+" node-local config: uses in scope S", nUses)
}

// carriesConfig: only scalar values (and the raw interface{} returned by AppOptions.Get) carry
// configuration taint; keepers, managers and other objects built with a tainted argument do not.
func carriesConfig(v ssa.Value) bool {
	if c, ok := v.(*ssa.Call); ok && isAppOptSource(callInfo(c)) {
		return true
	}
	t := v.Type()
	if _, ok := t.Underlying().(*types.Basic); ok {
		return true
	}
	if sl, ok := t.Underlying().(*types.Slice); ok {
		_, ok := sl.Elem().Underlying().(*types.Basic)
		return ok
	}
	if m, ok := t.Underlying().(*types.Map); ok {
		_, ok1 := m.Key().Underlying().(*types.Basic)
		_, ok2 := m.Elem().Underlying().(*types.Basic)
		return ok1 && ok2
	}
	return false
}

// checkTxGuarded: block is dominated by the true successor of `if ctx.IsCheckTx()` / IsReCheckTx().
func checkTxGuarded(b *ssa.BasicBlock) bool {
	for x := b; x != nil; x = x.Idom() {
		d := x.Idom()
		if d == nil {
			break
		}
		ifi, ok := lastIf(d)
		if !ok {
			continue
		}
		if c, ok := ifi.Cond.(*ssa.Call); ok {
			n := callInfo(c).Name
			if (n == "IsCheckTx" || n == "IsReCheckTx") && len(d.Succs[0].Preds) == 1 && dominates(d.Succs[0], b) {
				return true
			}
		}
	}
	return false
}

// onlyForwarded: every use of v merely moves it on (field store, argument of a Haqq function whose
// parameter is tracked, return, phi, representation change) — it takes part in no computation here.
func onlyForwarded(v ssa.Value, seen map[ssa.Value]bool) bool {
	if seen[v] || v.Referrers() == nil {
		return true
	}
	seen[v] = true
	for _, ref := range *v.Referrers() {
		switch x := ref.(type) {
		case *ssa.Store:
			if x.Val != v {
				return false
			}
		case *ssa.Return, *ssa.DebugRef:
		case *ssa.Phi:
			if !onlyForwarded(x, seen) {
				return false
			}
		case *ssa.ChangeType:
			if !onlyForwarded(x, seen) {
				return false
			}
		case *ssa.MakeInterface:
			if !onlyForwarded(x, seen) {
				return false
			}
		case ssa.CallInstruction:
			sc := x.Common().StaticCallee()
			if sc == nil || sc.Blocks == nil || !isHaqqPath(fnPkgPath(sc)) {
				return false
			}
		default:
			return false
		}
	}
	return true
}
